// property: C18
// harness: c18::c18_circumcenter_degenerate_2d_g2
// module: c18
// failing checks: a degenerate simplex has no circumcentre
// replay: ./check replay /verif/replays/C18/c18_circumcenter_degenerate_2d_g2.rs
/// Test generated for harness `c18::c18_circumcenter_degenerate_2d_g2` 
///
/// Check for `assertion`: ""a degenerate simplex has no circumcentre""
///
/// # Warning
///
/// Concrete playback tests combined with stubs or contracts is highly
/// experimental, and subject to change.
///
/// The original harness has stubs which are not applied to this test.
/// This may cause a mismatch of non-deterministic values if the stub
/// creates any non-deterministic value.
/// The execution path may also differ, which can be used to refine the stub
/// logic.

#[test]
fn kani_concrete_playback_c18_circumcenter_degenerate_2d_g2_10745364846606666689() {
    let concrete_vals: Vec<Vec<u8>> = vec![
        // -2
        vec![254],
        // -2
        vec![254],
        // 1
        vec![1],
        // 1
        vec![1],
        // 0
        vec![0],
        // 0
        vec![0],
    ];
    kani::concrete_playback_run(concrete_vals, c18_circumcenter_degenerate_2d_g2);
}
