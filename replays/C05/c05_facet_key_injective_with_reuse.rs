// property: C05
// harness: c05::c05_facet_key_injective_with_reuse
// module: c05
// failing checks: facet key is injective on sorted key tuples
// replay: ./check replay /verif/replays/C05/c05_facet_key_injective_with_reuse.rs
/// Test generated for harness `c05::c05_facet_key_injective_with_reuse` 
///
/// Check for `assertion`: ""facet key is injective on sorted key tuples""
///
/// # Warning
///
/// Concrete playback tests combined with stubs or contracts is highly
/// experimental, and subject to change.
///
/// The original harness has stubs which are not applied to this test.
/// This may cause a mismatch of non-deterministic values if the stub
/// creates any non-deterministic value.
/// The execution path may also differ, which can be used to refine the stub
/// logic.

#[test]
fn kani_concrete_playback_c05_facet_key_injective_with_reuse_10325456695062283945() {
    let concrete_vals: Vec<Vec<u8>> = vec![
        // 3058
        vec![242, 11, 0, 0],
        // 4084
        vec![244, 15, 0, 0],
        // 3062
        vec![246, 11, 0, 0],
        // 2344
        vec![40, 9, 0, 0],
        // 299
        vec![43, 1, 0, 0],
        // 539
        vec![27, 2, 0, 0],
        // 297
        vec![41, 1, 0, 0],
        // 385
        vec![129, 1, 0, 0],
    ];
    kani::concrete_playback_run(concrete_vals, c05_facet_key_injective_with_reuse);
}
