// property: C12
// harness: c12::c12_insphere2d_fast_g1_c4
// module: c12
// failing checks: in-sphere equals the sign of the exact determinant
// replay: ./check replay /verif/replays/C12/c12_insphere2d_fast_g1_c4.rs
/// Test generated for harness `c12::c12_insphere2d_fast_g1_c4` 
///
/// Check for `assertion`: ""in-sphere equals the sign of the exact determinant""
///
/// # Warning
///
/// Concrete playback tests combined with stubs or contracts is highly
/// experimental, and subject to change.
///
/// The original harness has stubs which are not applied to this test.
/// This may cause a mismatch of non-deterministic values if the stub
/// creates any non-deterministic value.
/// The execution path may also differ, which can be used to refine the stub
/// logic.

#[test]
fn kani_concrete_playback_c12_insphere2d_fast_g1_c4_8206145903280789699() {
    let concrete_vals: Vec<Vec<u8>> = vec![
        // -1
        vec![255],
        // -1
        vec![255],
        // -1
        vec![255],
        // 1
        vec![1],
        // 0
        vec![0],
        // -1
        vec![255],
    ];
    kani::concrete_playback_run(concrete_vals, c12_insphere2d_fast_g1_c4);
}
