//! Kani proof harnesses over the real, compiled `delaunay` crate in /repo.
//!
//! Every harness is declared through `harness!`, which attaches the environment
//! stubs documented in /verif/DESIGN.md §1. Each harness carries a `// bound:` line that
//! the driver (/verif/check) copies into the evidence file.
#![allow(clippy::all, dead_code, unused_imports, unused_macros)]

#[cfg(kani)]
pub mod stubs;
#[cfg(kani)]
#[macro_use]
pub mod util;

#[cfg(kani)]
mod conformance;

#[cfg(kani)]
mod c05;
#[cfg(kani)]
mod c09;
#[cfg(kani)]
mod c12;
#[cfg(kani)]
mod c14;
#[cfg(kani)]
mod c16;
#[cfg(kani)]
mod c17;
#[cfg(kani)]
mod c18;
#[cfg(kani)]
mod c19;

/// Exact reference model of `f64::rem_euclid` built only from operations whose Kani
/// models were found faithful (fma, division, trunc, comparisons). Not `cfg(kani)`:
/// it is differential-tested natively against `f64::rem_euclid` by `check setup`.
pub mod rem_model;
/// Native witnesses for the findings listed in known_findings.json.
pub mod witness;
/// Exact integer model of `f64::rem_euclid` on short-significand lattices, any exponent gap.
pub mod rem_lattice;
/// Natively validated table of float operations for the Kani intrinsic-conformance harness.
pub mod conf_table;
