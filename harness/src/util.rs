//! Shared helpers: the `harness!` macro, symbolic grids, exact integer references.

/// Declares a Kani proof harness with the standard environment stubs attached.
macro_rules! harness {
    ($(#[$m:meta])* fn $name:ident() $body:block) => {
        #[kani::proof]
        #[kani::stub(alloc::fmt::format, crate::stubs::fmt_format)]
        #[kani::stub(std::env::var_os, crate::stubs::env_var_os)]
        #[kani::stub(tracing_core::callsite::DefaultCallsite::register, crate::stubs::callsite_register)]
        #[kani::stub(tracing_core::event::Event::dispatch, crate::stubs::event_dispatch)]
        #[kani::stub(tracing::__macro_support::__is_enabled, crate::stubs::tracing_is_enabled)]
        #[kani::stub(delaunay::core::util::uuid::make_uuid, crate::stubs::make_uuid)]
        $(#[$m])*
        fn $name() $body
    };
}

/// Symbolic integer in `[-g, g]`.
pub fn any_grid(g: i32) -> i32 {
    let v: i8 = kani::any();
    let v = i32::from(v);
    kani::assume(v >= -g && v <= g);
    v
}

/// Exact 2×2 … 4×4 integer determinants (cofactor expansion), i32/i128.
pub fn det2(a: i32, b: i32, c: i32, d: i32) -> i32 {
    a * d - b * c
}

pub fn det3(m: [[i32; 3]; 3]) -> i32 {
    m[0][0] * det2(m[1][1], m[1][2], m[2][1], m[2][2])
        - m[0][1] * det2(m[1][0], m[1][2], m[2][0], m[2][2])
        + m[0][2] * det2(m[1][0], m[1][1], m[2][0], m[2][1])
}

pub fn det4(m: [[i32; 4]; 4]) -> i32 {
    let minor = |skip: usize| -> i32 {
        let mut s = [[0_i32; 3]; 3];
        let mut r = 0;
        while r < 3 {
            let mut cc = 0;
            let mut c = 0;
            while c < 4 {
                if c != skip {
                    s[r][cc] = m[r + 1][c];
                    cc += 1;
                }
                c += 1;
            }
            r += 1;
        }
        det3(s)
    };
    m[0][0] * minor(0) - m[0][1] * minor(1) + m[0][2] * minor(2) - m[0][3] * minor(3)
}

pub fn det5(m: [[i32; 5]; 5]) -> i32 {
    let minor = |skip: usize| -> i32 {
        let mut s = [[0_i32; 4]; 4];
        let mut r = 0;
        while r < 4 {
            let mut cc = 0;
            let mut c = 0;
            while c < 5 {
                if c != skip {
                    s[r][cc] = m[r + 1][c];
                    cc += 1;
                }
                c += 1;
            }
            r += 1;
        }
        det4(s)
    };
    m[0][0] * minor(0) - m[0][1] * minor(1) + m[0][2] * minor(2) - m[0][3] * minor(3) + m[0][4] * minor(4)
}

pub fn sign(v: i32) -> i32 {
    if v > 0 {
        1
    } else if v < 0 {
        -1
    } else {
        0
    }
}

/// A v4-shaped UUID with a chosen distinguishing number.
pub fn uuid_n(n: u64) -> uuid::Uuid {
    uuid::Uuid::from_u128((u128::from(n) << 80) | 0x0000_0000_0000_4000_8000_0000_0000_0001_u128)
}
