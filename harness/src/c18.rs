//! C18 — simplex volume (closed-form branches, D ≤ 3) against the exact rational value.

use crate::util::*;
use delaunay::geometry::point::Point;
use delaunay::geometry::traits::coordinate::Coordinate;
use delaunay::geometry::util::measures::simplex_volume;

/// `Ok(v)` ⇒ exact |det| ≠ 0 and |v·D! − |det|·scale^D| ≤ 2⁻³⁰·|det|·scale^D (≈ 1e-9 relative);
/// exact det = 0 ⇒ `Err`. The comparison avoids floating-point multiplication/division in the
/// oracle: v·D! is formed by additions, scale^D and the tolerance by exponent arithmetic.
/// `k_pow` = k·D for lattices scaled by 2^-k.
fn check_volume(got: Result<f64, ()>, abs_det: i32, dfact: u8, k_pow: u64) {
    match got {
        Ok(v) => {
            assert!(abs_det != 0, "a degenerate simplex must be reported as an error, not a finite volume");
            // D! * v by repeated addition (each addition rounds by at most half an ulp)
            let mut scaled = 0.0_f64;
            let mut i = 0;
            while i < dfact {
                scaled += v;
                i += 1;
            }
            // |det| * 2^-k_pow, exact: small integer with the exponent lowered
            let exact = f64::from_bits((f64::from(abs_det).to_bits() as i64 - ((k_pow as i64) << 52)) as u64);
            let tol = f64::from_bits((exact.to_bits() as i64 - (30_i64 << 52)) as u64);
            assert!((scaled - exact).abs() <= tol, "volume agrees with the exact value to relative 1e-9");
        }
        Err(()) => {
            // the library documents an absolute degeneracy threshold of 1e-12: 2^-39 < 1e-12/6 is
            // below every volume demanded here (k_pow <= 24)
            assert!(abs_det == 0, "a non-degenerate simplex has a volume");
        }
    }
}

harness! {
    // bound: simplex_volume D=1, endpoints any i16 integers
    #[kani::unwind(8)]
    fn c18_volume_1d_i16() {
        let a: i16 = kani::any();
        let b: i16 = kani::any();
        let pts = [Point::new([f64::from(a)]), Point::new([f64::from(b)])];
        let got = simplex_volume(&pts).map_err(|_| ());
        let det = (i32::from(a) - i32::from(b)).abs();
        check_volume(got, det, 1, 0);
        kani::cover!(det == 0, "degenerate reached");
        kani::cover!(det > 0, "non-degenerate reached");
        core::mem::forget(got);
    }
}

macro_rules! volume2d {
    ($name:ident, $g:literal) => {
        harness! {
            // bound: simplex_volume D=2, 3 points with integer coordinates in [-G, G]
            #[kani::unwind(8)]
            fn $name() {
                let mut ip = [[0_i32; 2]; 3];
                let mut pts = [Point::new([0.0, 0.0]); 3];
                let mut i = 0;
                while i < 3 {
                    let x = any_grid($g);
                    let y = any_grid($g);
                    ip[i] = [x, y];
                    pts[i] = Point::new([f64::from(x), f64::from(y)]);
                    i += 1;
                }
                let det = det3([[ip[0][0], ip[0][1], 1], [ip[1][0], ip[1][1], 1], [ip[2][0], ip[2][1], 1]]).abs();
                let got = simplex_volume(&pts).map_err(|_| ());
                check_volume(got, det, 2, 0);
                kani::cover!(det == 0, "degenerate reached");
                kani::cover!(det == 1, "smallest non-degenerate triangle reached");
                kani::cover!(det > 1, "larger triangle reached");
                core::mem::forget(got);
            }
        }
    };
}

volume2d!(c18_volume_2d_g2, 2);
volume2d!(c18_volume_2d_g3, 3);
volume2d!(c18_volume_2d_g4, 4);

harness! {
    // bound: simplex_volume D=2 on dyadic lattices 2^-k * [-2,2]^2, k symbolic in 0..=12 (scaling law: factor 4^-k)
    #[kani::unwind(8)]
    fn c18_volume_2d_dyadic_g2() {
        let k: u8 = kani::any();
        kani::assume(k <= 12);
        let scale = f64::from_bits((1023_u64 - u64::from(k)) << 52);
        let mut ip = [[0_i32; 2]; 3];
        let mut pts = [Point::new([0.0, 0.0]); 3];
        let mut i = 0;
        while i < 3 {
            let x = any_grid(2);
            let y = any_grid(2);
            ip[i] = [x, y];
            pts[i] = Point::new([f64::from(x) * scale, f64::from(y) * scale]);
            i += 1;
        }
        let det = det3([[ip[0][0], ip[0][1], 1], [ip[1][0], ip[1][1], 1], [ip[2][0], ip[2][1], 1]]).abs();
        let got = simplex_volume(&pts).map_err(|_| ());
        check_volume(got, det, 2, 2 * u64::from(k));
        kani::cover!(det == 0, "degenerate reached");
        kani::cover!(det == 1 && k == 12, "smallest triangle at the smallest scale reached");
        core::mem::forget(got);
    }
}

macro_rules! volume3d {
    ($name:ident, $g:literal) => {
        harness! {
            // bound: simplex_volume D=3, 4 points with integer coordinates in [-G, G]
            #[kani::unwind(8)]
            fn $name() {
                let mut ip = [[0_i32; 3]; 4];
                let mut pts = [Point::new([0.0, 0.0, 0.0]); 4];
                let mut i = 0;
                while i < 4 {
                    let x = any_grid($g);
                    let y = any_grid($g);
                    let z = any_grid($g);
                    ip[i] = [x, y, z];
                    pts[i] = Point::new([f64::from(x), f64::from(y), f64::from(z)]);
                    i += 1;
                }
                let det = det4([
                    [ip[0][0], ip[0][1], ip[0][2], 1],
                    [ip[1][0], ip[1][1], ip[1][2], 1],
                    [ip[2][0], ip[2][1], ip[2][2], 1],
                    [ip[3][0], ip[3][1], ip[3][2], 1],
                ]).abs();
                let got = simplex_volume(&pts).map_err(|_| ());
                check_volume(got, det, 6, 0);
                kani::cover!(det == 0, "degenerate reached");
                kani::cover!(det == 1, "smallest non-degenerate tetrahedron reached");
                kani::cover!(det > 1, "larger tetrahedron reached");
                core::mem::forget(got);
            }
        }
    };
}

volume3d!(c18_volume_3d_g1, 1);

harness! {
    // bound: simplex_volume D=2 with any slice length 0..=5: Err unless exactly 3 points
    #[kani::unwind(7)]
    fn c18_volume_2d_wrong_arity() {
        let n: usize = kani::any();
        kani::assume(n <= 5);
        let pts = [Point::new([0.0, 0.0]), Point::new([1.0, 0.0]), Point::new([0.0, 1.0]), Point::new([2.0, 2.0]), Point::new([3.0, 1.0])];
        let got = simplex_volume(&pts[..n]);
        assert!(got.is_ok() == (n == 3), "wrong number of points is an error");
        kani::cover!(n == 3, "valid arity reached");
        kani::cover!(n == 0, "empty slice reached");
        core::mem::forget(got);
    }
}

/// D=4 (Gram matrix + LDLT path): an exactly degenerate integer simplex must be an error.
/// Only the Ok/Err verdict is asserted (Kani's sqrt model is inexact, so no value claim).
macro_rules! volume4d_degenerate {
    ($name:ident, $g:literal, $fixed:literal) => {
        harness! {
            // bound: simplex_volume D=4, first $fixed points fixed on the unit frame, the rest symbolic integers in [-G, G]^4, restricted to EXACTLY degenerate simplices: must be Err
            #[kani::unwind(7)]
            fn $name() {
                let frame: [[i32; 4]; 5] = [[0, 0, 0, 0], [1, 0, 0, 0], [0, 1, 0, 0], [0, 0, 1, 0], [0, 0, 0, 1]];
                let mut ip = [[0_i32; 4]; 5];
                let mut pts = [Point::new([0.0, 0.0, 0.0, 0.0]); 5];
                let mut i = 0;
                while i < 5 {
                    let c: [i32; 4] = if i < $fixed { frame[i] } else { [any_grid($g), any_grid($g), any_grid($g), any_grid($g)] };
                    ip[i] = [c[0], c[1], c[2], c[3]];
                    pts[i] = Point::new([f64::from(c[0]), f64::from(c[1]), f64::from(c[2]), f64::from(c[3])]);
                    i += 1;
                }
                let det = det5([
                    [ip[0][0], ip[0][1], ip[0][2], ip[0][3], 1],
                    [ip[1][0], ip[1][1], ip[1][2], ip[1][3], 1],
                    [ip[2][0], ip[2][1], ip[2][2], ip[2][3], 1],
                    [ip[3][0], ip[3][1], ip[3][2], ip[3][3], 1],
                    [ip[4][0], ip[4][1], ip[4][2], ip[4][3], 1],
                ]);
                kani::assume(det == 0);
                let got = simplex_volume(&pts);
                assert!(got.is_err(), "a degenerate simplex must be reported as an error, not a finite volume");
                kani::cover!((ip[4][0] != ip[3][0] || ip[4][1] != ip[3][1] || ip[4][2] != ip[3][2] || ip[4][3] != ip[3][3]) && det == 0, "degenerate with distinct free points reached");
                core::mem::forget(got);
            }
        }
    };
}

volume4d_degenerate!(c18_volume_4d_degenerate_g2_fixed3, 2, 3);

// ---------------------------------------------------------------------------
// Circumcentre (D = 2): LU solve on relative coordinates; no sqrt/hypot involved
// ---------------------------------------------------------------------------

use delaunay::geometry::util::circumsphere::circumcenter;

/// Exact rational circumcentre of an integer triangle: x0 + (nx, ny) / d with d = 2 * det.
fn exact_circumcentre_2d(ip: &[[i32; 2]; 3]) -> (i32, i32, i32) {
    let (ax, ay) = (ip[1][0] - ip[0][0], ip[1][1] - ip[0][1]);
    let (bx, by) = (ip[2][0] - ip[0][0], ip[2][1] - ip[0][1]);
    let d = 2 * (ax * by - ay * bx);
    let a2 = ax * ax + ay * ay;
    let b2 = bx * bx + by * by;
    (d, by * a2 - ay * b2, ax * b2 - bx * a2)
}

fn any_triangle_g(g: i32) -> ([[i32; 2]; 3], [Point<f64, 2>; 3]) {
    let mut ip = [[0_i32; 2]; 3];
    let mut pts = [Point::new([0.0, 0.0]); 3];
    let mut i = 0;
    while i < 3 {
        let x = any_grid(g);
        let y = any_grid(g);
        ip[i] = [x, y];
        pts[i] = Point::new([f64::from(x), f64::from(y)]);
        i += 1;
    }
    (ip, pts)
}

harness! {
    // bound: circumcenter D=2, first point at the origin, two further points with integer coordinates in [0,3]^2, EXACTLY collinear: must be Err (KNOWN FINDING F4: Ok(garbage) when the LU elimination leaves a rounding residue as pivot)
    #[kani::unwind(5)]
    fn c18_circumcenter_degenerate_2d_origin_g3() {
        let c: [u8; 4] = kani::any();
        kani::assume(c[0] <= 3 && c[1] <= 3 && c[2] <= 3 && c[3] <= 3);
        let ip = [[0, 0], [i32::from(c[0]), i32::from(c[1])], [i32::from(c[2]), i32::from(c[3])]];
        let pts = [
            Point::new([0.0, 0.0]),
            Point::new([f64::from(c[0]), f64::from(c[1])]),
            Point::new([f64::from(c[2]), f64::from(c[3])]),
        ];
        let (d, _, _) = exact_circumcentre_2d(&ip);
        kani::assume(d == 0);
        let got = circumcenter(&pts);
        assert!(got.is_err(), "a degenerate simplex has no circumcentre");
        kani::cover!(c[0] != 0 && c[2] != c[0] && c[1] != 0, "three distinct collinear points on a slanted line reached");
        core::mem::forget(got);
    }
}

harness! {
    // bound: circumcenter D=2, 3 EXACTLY collinear points with integer coordinates in [-2,2]: must be Err (KNOWN FINDING F4: Ok(garbage) when the LU elimination leaves a rounding residue as pivot)
    #[kani::unwind(5)]
    fn c18_circumcenter_degenerate_2d_g2() {
        let (ip, pts) = any_triangle_g(2);
        let (d, _, _) = exact_circumcentre_2d(&ip);
        kani::assume(d == 0);
        let got = circumcenter(&pts);
        assert!(got.is_err(), "a degenerate simplex has no circumcentre");
        kani::cover!(ip[0][0] != ip[1][0] && ip[1][0] != ip[2][0] && ip[0][1] != ip[1][1], "three distinct collinear points on a slanted line reached");
        core::mem::forget(got);
    }
}

harness! {
    // bound: circumcenter D=2, 3 non-collinear points with integer coordinates in [-2,2]: Ok(C) with C*d = exact numerator (d = 2*det) to 1e-9
    #[kani::unwind(5)]
    fn c18_circumcenter_value_2d_g2() {
        let (ip, pts) = any_triangle_g(2);
        let (d, nx, ny) = exact_circumcentre_2d(&ip);
        kani::assume(d != 0);
        let got = circumcenter(&pts);
        let Ok(c) = &got else { panic!("a non-degenerate simplex has a circumcentre") };
        let df = f64::from(d);
        let ex = f64::from(ip[0][0] * d + nx); // exact integer: d * Cx
        let ey = f64::from(ip[0][1] * d + ny);
        let tol = 1e-9 * (1.0 + ex.abs().max(ey.abs()));
        assert!((c.coords()[0] * df - ex).abs() <= tol && (c.coords()[1] * df - ey).abs() <= tol,
            "circumcentre agrees with the exact rational value");
        kani::cover!(nx != 0 && ny != 0, "generic triangle reached");
        kani::cover!(nx == 0, "circumcentre on the vertical through x0 reached");
        core::mem::forget(got);
    }
}

macro_rules! circumcenter_translation {
    ($name:ident, $k:literal) => {
        harness! {
            // bound: circumcenter D=2 translation invariance: triangle in [-2,2]^2 translated by t = (m0, m1) * 2^k (k fixed), m in [-3,3]: C(p + t) = C(p) + t within 2^-48 |t| + 2^-30
            #[kani::unwind(5)]
            fn $name() {
                let unit = f64::from_bits((1023_u64 + $k) << 52);
                let t = [f64::from(any_grid(3)) * unit, f64::from(any_grid(3)) * unit];
                let (ip, p) = any_triangle_g(2);
                let mut q = [Point::new([0.0, 0.0]); 3];
                let mut i = 0;
                while i < 3 {
                    q[i] = Point::new([f64::from(ip[i][0]) + t[0], f64::from(ip[i][1]) + t[1]]); // exact: integers below 2^48
                    i += 1;
                }
                let (d, _, _) = exact_circumcentre_2d(&ip);
                kani::assume(d != 0);
                let c0 = circumcenter(&p);
                let c1 = circumcenter(&q);
                let (Ok(c0), Ok(c1)) = (&c0, &c1) else { panic!("non-degenerate triangle without circumcentre") };
                let tol0 = t[0].abs() * f64::from_bits((1023_u64 - 48) << 52) + f64::from_bits((1023_u64 - 30) << 52);
                let tol1 = t[1].abs() * f64::from_bits((1023_u64 - 48) << 52) + f64::from_bits((1023_u64 - 30) << 52);
                assert!(((c1.coords()[0] - t[0]) - c0.coords()[0]).abs() <= tol0 && ((c1.coords()[1] - t[1]) - c0.coords()[1]).abs() <= tol1,
                    "circumcentre is translation invariant");
                kani::cover!(t[0] != 0.0 && t[1] != 0.0, "oblique translation reached");
            }
        }
    };
}

circumcenter_translation!(c18_circumcenter_translation_2d_k30, 30);
circumcenter_translation!(c18_circumcenter_translation_2d_k44, 44);

/// Same claim on a skew frame (three fixed vertices in general position, whose Gram matrix
/// eliminates with non-dyadic multipliers such as 1/3, 1/5): the rounding residue of an
/// exactly singular elimination is then non-zero, which the unit frame never produces.
harness! {
    // bound: simplex_volume D=4, vertices 0..3 fixed at (2,0,-1,1), (-2,1,2,0), (3,3,1,3), (3,-3,3,1), vertex 4 every integer point of [-4,4]^4 on their hyperplane (EXACTLY degenerate): must be Err
    #[kani::unwind(7)]
    fn c18_volume_4d_degenerate_g4_skew4() {
        let frame: [[i32; 4]; 4] = [[2, 0, -1, 1], [-2, 1, 2, 0], [3, 3, 1, 3], [3, -3, 3, 1]];
        let mut ip = [[0_i32; 4]; 5];
        let mut pts = [Point::new([0.0, 0.0, 0.0, 0.0]); 5];
        let mut i = 0;
        while i < 5 {
            let c: [i32; 4] = if i < 4 { frame[i] } else { [any_grid(4), any_grid(4), any_grid(4), any_grid(4)] };
            ip[i] = c;
            pts[i] = Point::new([f64::from(c[0]), f64::from(c[1]), f64::from(c[2]), f64::from(c[3])]);
            i += 1;
        }
        let det = det5([
            [ip[0][0], ip[0][1], ip[0][2], ip[0][3], 1],
            [ip[1][0], ip[1][1], ip[1][2], ip[1][3], 1],
            [ip[2][0], ip[2][1], ip[2][2], ip[2][3], 1],
            [ip[3][0], ip[3][1], ip[3][2], ip[3][3], 1],
            [ip[4][0], ip[4][1], ip[4][2], ip[4][3], 1],
        ]);
        kani::assume(det == 0);
        let got = simplex_volume(&pts);
        assert!(got.is_err(), "a degenerate simplex must be reported as an error, not a finite volume");
        kani::cover!(det == 0 && ip[4][0] == -3 && ip[4][1] == 4, "a lattice point of the hyperplane away from the fixed vertices reached");
        core::mem::forget(got);
    }
}
