//! harnesses for c18 (filled in below)
