//! C18 — simplex volume (closed-form branches, D ≤ 3) against the exact rational value.

use crate::util::*;
use delaunay::geometry::point::Point;
use delaunay::geometry::traits::coordinate::Coordinate;
use delaunay::geometry::util::measures::simplex_volume;

/// `Ok(v)` ⇒ exact |det| ≠ 0 and |v·D! − |det|| ≤ 1e-9·|det|; exact det = 0 ⇒ `Err`.
/// `scale_pow` = scale^D for lattices scaled by an exact power of two.
fn check_volume(got: Result<f64, ()>, abs_det: i64, dfact: f64, scale_pow: f64) {
    let exact = (abs_det as f64) * scale_pow / dfact; // exact up to one rounding of the division
    match got {
        Ok(v) => {
            assert!(abs_det != 0, "a degenerate simplex must be reported as an error, not a finite volume");
            assert!((v - exact).abs() <= 1e-9 * exact, "volume agrees with the exact value to relative 1e-9");
        }
        Err(()) => {
            // the library documents an absolute degeneracy threshold of 1e-12; only volumes above it are demanded
            assert!(abs_det == 0 || exact < 1e-12, "a non-degenerate simplex has a volume");
        }
    }
}

harness! {
    // bound: simplex_volume D=1, endpoints any i16 integers
    #[kani::unwind(4)]
    fn c18_volume_1d_i16() {
        let a: i16 = kani::any();
        let b: i16 = kani::any();
        let pts = [Point::new([f64::from(a)]), Point::new([f64::from(b)])];
        let got = simplex_volume(&pts).map_err(|_| ());
        let det = (i64::from(a) - i64::from(b)).abs();
        check_volume(got, det, 1.0, 1.0);
        kani::cover!(det == 0, "degenerate reached");
        kani::cover!(det > 0, "non-degenerate reached");
        core::mem::forget(got);
    }
}

macro_rules! volume2d {
    ($name:ident, $g:literal) => {
        harness! {
            // bound: simplex_volume D=2, 3 points with integer coordinates in [-G, G]
            #[kani::unwind(5)]
            fn $name() {
                let mut ip = [[0_i64; 2]; 3];
                let mut pts = [Point::new([0.0, 0.0]); 3];
                let mut i = 0;
                while i < 3 {
                    let x = any_grid($g);
                    let y = any_grid($g);
                    ip[i] = [i64::from(x), i64::from(y)];
                    pts[i] = Point::new([f64::from(x), f64::from(y)]);
                    i += 1;
                }
                let det = det3([[ip[0][0], ip[0][1], 1], [ip[1][0], ip[1][1], 1], [ip[2][0], ip[2][1], 1]]).abs();
                let got = simplex_volume(&pts).map_err(|_| ());
                check_volume(got, det, 2.0, 1.0);
                kani::cover!(det == 0, "degenerate reached");
                kani::cover!(det == 1, "smallest non-degenerate triangle reached");
                kani::cover!(det > 1, "larger triangle reached");
                core::mem::forget(got);
            }
        }
    };
}

volume2d!(c18_volume_2d_g2, 2);
volume2d!(c18_volume_2d_g8, 8);
volume2d!(c18_volume_2d_g32, 32);

harness! {
    // bound: simplex_volume D=2 on dyadic lattices 2^-k * [-4,4]^2, k symbolic in 0..=12 (scaling law: factor 4^-k)
    #[kani::unwind(5)]
    fn c18_volume_2d_dyadic_g4() {
        let k: u8 = kani::any();
        kani::assume(k <= 12);
        let scale = f64::from_bits((1023_u64 - u64::from(k)) << 52);
        let mut ip = [[0_i64; 2]; 3];
        let mut pts = [Point::new([0.0, 0.0]); 3];
        let mut i = 0;
        while i < 3 {
            let x = any_grid(4);
            let y = any_grid(4);
            ip[i] = [i64::from(x), i64::from(y)];
            pts[i] = Point::new([f64::from(x) * scale, f64::from(y) * scale]);
            i += 1;
        }
        let det = det3([[ip[0][0], ip[0][1], 1], [ip[1][0], ip[1][1], 1], [ip[2][0], ip[2][1], 1]]).abs();
        let got = simplex_volume(&pts).map_err(|_| ());
        check_volume(got, det, 2.0, scale * scale);
        kani::cover!(det == 0, "degenerate reached");
        kani::cover!(det == 1 && k == 12, "smallest triangle at the smallest scale reached");
        core::mem::forget(got);
    }
}

macro_rules! volume3d {
    ($name:ident, $g:literal) => {
        harness! {
            // bound: simplex_volume D=3, 4 points with integer coordinates in [-G, G]
            #[kani::unwind(6)]
            fn $name() {
                let mut ip = [[0_i64; 3]; 4];
                let mut pts = [Point::new([0.0, 0.0, 0.0]); 4];
                let mut i = 0;
                while i < 4 {
                    let x = any_grid($g);
                    let y = any_grid($g);
                    let z = any_grid($g);
                    ip[i] = [i64::from(x), i64::from(y), i64::from(z)];
                    pts[i] = Point::new([f64::from(x), f64::from(y), f64::from(z)]);
                    i += 1;
                }
                let det = det4([
                    [ip[0][0], ip[0][1], ip[0][2], 1],
                    [ip[1][0], ip[1][1], ip[1][2], 1],
                    [ip[2][0], ip[2][1], ip[2][2], 1],
                    [ip[3][0], ip[3][1], ip[3][2], 1],
                ]).abs();
                let got = simplex_volume(&pts).map_err(|_| ());
                check_volume(got, det, 6.0, 1.0);
                kani::cover!(det == 0, "degenerate reached");
                kani::cover!(det == 1, "smallest non-degenerate tetrahedron reached");
                kani::cover!(det > 1, "larger tetrahedron reached");
                core::mem::forget(got);
            }
        }
    };
}

volume3d!(c18_volume_3d_g1, 1);
volume3d!(c18_volume_3d_g2, 2);

harness! {
    // bound: simplex_volume D=2 with any slice length 0..=5: Err unless exactly 3 points
    #[kani::unwind(7)]
    fn c18_volume_2d_wrong_arity() {
        let n: usize = kani::any();
        kani::assume(n <= 5);
        let pts = [Point::new([0.0, 0.0]), Point::new([1.0, 0.0]), Point::new([0.0, 1.0]), Point::new([2.0, 2.0]), Point::new([3.0, 1.0])];
        let got = simplex_volume(&pts[..n]);
        assert!(got.is_ok() == (n == 3), "wrong number of points is an error");
        kani::cover!(n == 3, "valid arity reached");
        kani::cover!(n == 0, "empty slice reached");
        core::mem::forget(got);
    }
}
