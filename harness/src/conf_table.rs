//! Intrinsic-model conformance table (DESIGN.md §1): float operations the claimed kernels
//! reach, with operands chosen at rounding boundaries. `expected` is produced natively
//! (`native_expected`) and checked (a) natively against the stored bits by `cargo test`,
//! (b) under Kani against Kani's intrinsic models by `conformance::conf_float_ops`.

#[derive(Clone, Copy, Debug, PartialEq, Eq)]
pub enum Op {
    MulAdd,
    Div,
    Mul,
    Add,
    Sub,
    Round,
    Floor,
    Trunc,
    Abs,
    Max,
    Min,
    ToI64,
    ToU32,
    ToU64,
    FromI64,
}

/// (op, a, b, c, expected result bits). For casts the result is the integer value as u64 bits.
pub const TABLE: &[(Op, f64, f64, f64, u64)] = &[
    (Op::MulAdd, 0.1, 10.0, -1.0, 0x3c90_0000_0000_0000), // fused: 2^-54, unfused would be 0
    (Op::MulAdd, 1.0e-12, 3.0, 1.0e-12, 0x3d91_9799_812d_ea11),
    (Op::MulAdd, -3.0, 0.3333333333333333, 1.0, 0x3c90_0000_0000_0000),
    (Op::Div, 1.0, 3.0, 0.0, 0x3fd5_5555_5555_5555),
    (Op::Div, 2.0, 0.0, 0.0, 0x7ff0_0000_0000_0000),
    (Op::Div, 5e-324, 2.0, 0.0, 0),
    (Op::Div, 1.0, 1e-10, 0.0, 0x4202_a05f_2000_0000),
    (Op::Mul, 1e-200, 1e-200, 0.0, 0),
    (Op::Mul, 0.1, 0.1, 0.0, 0x3f84_7ae1_47ae_147c),
    (Op::Mul, 3e-310, 0.5, 0.0, 0x0000_1b9c_d129_5940),
    (Op::Add, 0.1, 0.2, 0.0, 0x3fd3_3333_3333_3334),
    (Op::Add, 1.0, 1.1102230246251565e-16, 0.0, 0x3ff0_0000_0000_0000),
    (Op::Add, -1e-20, 1.0, 0.0, 0x3ff0_0000_0000_0000),
    (Op::Sub, 1.0, 1.1102230246251565e-16, 0.0, 0x3fef_ffff_ffff_ffff),
    (Op::Sub, 0.3, 0.1, 0.0, 0x3fc9_9999_9999_9999),
    (Op::Round, 2.5, 0.0, 0.0, 0x4008_0000_0000_0000),
    (Op::Round, -2.5, 0.0, 0.0, 0xc008_0000_0000_0000),
    (Op::Round, 0.49999999999999994, 0.0, 0.0, 0),
    (Op::Round, 4503599627370497.0, 0.0, 0.0, 0x4330_0000_0000_0001),
    (Op::Floor, -0.5, 0.0, 0.0, 0xbff0_0000_0000_0000),
    (Op::Floor, -0.0, 0.0, 0.0, 0x8000_0000_0000_0000),
    (Op::Floor, 1e10 + 0.5, 0.0, 0.0, 0x4202_a05f_2000_0000),
    (Op::Floor, -1e-300, 0.0, 0.0, 0xbff0_0000_0000_0000),
    (Op::Trunc, -7.9, 0.0, 0.0, 0xc01c_0000_0000_0000),
    (Op::Trunc, 0.9999999999999999, 0.0, 0.0, 0),
    (Op::Abs, -0.0, 0.0, 0.0, 0),
    (Op::Max, f64::NAN, 1.0, 0.0, 0x3ff0_0000_0000_0000),
    (Op::Min, 1.0, f64::NAN, 0.0, 0x3ff0_0000_0000_0000),
    (Op::Max, -0.0, -1.0, 0.0, 0x8000_0000_0000_0000),
    (Op::ToI64, -1.5, 0.0, 0.0, (-1_i64) as u64),
    (Op::ToI64, 1e300, 0.0, 0.0, i64::MAX as u64),
    (Op::ToI64, f64::NAN, 0.0, 0.0, 0),
    (Op::ToU32, 4294967295.9, 0.0, 0.0, 4294967295),
    (Op::ToU32, -3.0, 0.0, 0.0, 0),
    (Op::ToU64, 1.8446744073709552e19, 0.0, 0.0, u64::MAX),
    (Op::FromI64, 9007199254740993.0, 0.0, 0.0, 0x4340_0000_0000_0000),
];

/// Evaluates one table row with the compiler's / machine's native operations
/// (under Kani: with Kani's intrinsic models).
#[must_use]
pub fn eval(op: Op, a: f64, b: f64, c: f64) -> u64 {
    match op {
        Op::MulAdd => a.mul_add(b, c).to_bits(),
        Op::Div => (a / b).to_bits(),
        Op::Mul => (a * b).to_bits(),
        Op::Add => (a + b).to_bits(),
        Op::Sub => (a - b).to_bits(),
        Op::Round => a.round().to_bits(),
        Op::Floor => a.floor().to_bits(),
        Op::Trunc => a.trunc().to_bits(),
        Op::Abs => a.abs().to_bits(),
        Op::Max => a.max(b).to_bits(),
        Op::Min => a.min(b).to_bits(),
        Op::ToI64 => (a as i64) as u64,
        Op::ToU32 => u64::from(a as u32),
        Op::ToU64 => a as u64,
        Op::FromI64 => ((a as i64 + 0) as f64).to_bits(),
    }
}

#[cfg(test)]
mod tests {
    use super::*;

    #[test]
    fn table_matches_native_results() {
        let mut bad = 0;
        for (i, &(op, a, b, c, want)) in TABLE.iter().enumerate() {
            let got = eval(op, std::hint::black_box(a), std::hint::black_box(b), std::hint::black_box(c));
            if got != want {
                bad += 1;
                eprintln!("row {i} {op:?}({a:e},{b:e},{c:e}): native {got:#018x}, table {want:#018x}");
            }
        }
        assert!(bad == 0, "{bad} rows of the conformance table disagree with native evaluation");
    }
}
