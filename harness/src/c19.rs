//! C19 — no panic, no overflow, no out-of-bounds, bounded loops for the kernels over
//! UNRESTRICTED inputs (every f64 bit pattern, any slice length). No functional assertion:
//! Kani's built-in checks and the unwinding assertions decide the claim.

use crate::util::*;
use delaunay::core::util::hilbert::{hilbert_index, hilbert_indices_prequantized};
use delaunay::core::vertex::Vertex;
use delaunay::geometry::kernel::{FastKernel, Kernel, RobustKernel};
use delaunay::geometry::point::Point;
use delaunay::geometry::predicates::{insphere, insphere_lifted, simplex_orientation};
use delaunay::geometry::traits::coordinate::Coordinate;
use delaunay::geometry::util::conversions::{safe_coords_to_f64, safe_scalar_from_f64, safe_scalar_to_f64};
use delaunay::geometry::util::measures::simplex_volume;
use delaunay::verif_hooks::dt as hooks;
use delaunay::verif_hooks::grid as ghooks;

fn any_pt2() -> Point<f64, 2> {
    Point::new([kani::any(), kani::any()])
}

fn any_pt3() -> Point<f64, 3> {
    Point::new([kani::any(), kani::any(), kani::any()])
}

harness! {
    // bound: FastKernel/RobustKernel orientation D=2 over 3 points of UNRESTRICTED doubles and any slice length 0..=4
    #[kani::unwind(6)]
    fn c19_orient2d_unrestricted() {
        let pts = [any_pt2(), any_pt2(), any_pt2(), any_pt2()];
        let n: usize = kani::any();
        kani::assume(n <= 4);
        let r = <FastKernel<f64> as Kernel<2>>::orientation(&FastKernel::new(), &pts[..n]);
        if n != 3 {
            assert!(r.is_err(), "wrong arity is an error");
        }
        if let Ok(v) = r {
            assert!(v == -1 || v == 0 || v == 1);
        }
        kani::cover!(r.is_ok(), "Ok reached");
        kani::cover!(n == 3 && r.is_err(), "Err on a 3-point input reached (non-finite coordinate)");
        core::mem::forget(r);
    }
}

harness! {
    // bound: RobustKernel orientation D=2 over 3 points of UNRESTRICTED doubles
    #[kani::unwind(6)]
    fn c19_orient2d_robust_unrestricted() {
        let pts = [any_pt2(), any_pt2(), any_pt2()];
        let r = <RobustKernel<f64> as Kernel<2>>::orientation(&RobustKernel::new(), &pts);
        if let Ok(v) = r {
            assert!(v == -1 || v == 0 || v == 1);
        }
        kani::cover!(r.is_ok(), "Ok reached");
        kani::cover!(r.is_err(), "Err reached");
        core::mem::forget(r);
    }
}

harness! {
    // bound: simplex_orientation D=3 over 4 points of UNRESTRICTED doubles
    #[kani::unwind(7)]
    fn c19_orient3d_unrestricted() {
        let pts = [any_pt3(), any_pt3(), any_pt3(), any_pt3()];
        let r = simplex_orientation(&pts);
        kani::cover!(r.is_ok(), "Ok reached");
        kani::cover!(r.is_err(), "Err reached");
        core::mem::forget(r);
    }
}

harness! {
    // bound: insphere + insphere_lifted D=2 over UNRESTRICTED doubles (3 simplex points + query)
    #[kani::unwind(7)]
    fn c19_insphere2d_unrestricted() {
        let pts = [any_pt2(), any_pt2(), any_pt2()];
        let q = any_pt2();
        let r = insphere(&pts, q);
        let r2 = insphere_lifted(&pts, q);
        kani::cover!(r.is_ok(), "insphere Ok reached");
        kani::cover!(r.is_err(), "insphere Err reached");
        kani::cover!(r2.is_ok(), "insphere_lifted Ok reached");
        core::mem::forget(r);
        core::mem::forget(r2);
    }
}

harness! {
    // bound: simplex_volume D=2 and D=3 over UNRESTRICTED doubles
    #[kani::unwind(7)]
    fn c19_volume_unrestricted() {
        let p2 = [any_pt2(), any_pt2(), any_pt2()];
        let r2 = simplex_volume(&p2);
        if let Ok(v) = r2 {
            assert!(!(v < 1e-12), "a returned area is never below the degeneracy threshold");
        }
        let p3 = [any_pt3(), any_pt3(), any_pt3(), any_pt3()];
        let r3 = simplex_volume(&p3);
        kani::cover!(r2.is_ok(), "2-D Ok reached");
        kani::cover!(r2.is_err(), "2-D Err reached");
        kani::cover!(r3.is_ok(), "3-D Ok reached");
        core::mem::forget(r2);
        core::mem::forget(r3);
    }
}

harness! {
    // bound: Point::validate / Vertex::is_valid / safe_* conversions over UNRESTRICTED doubles, D=3: refuse exactly the non-finite values
    #[kani::unwind(6)]
    fn c19_nonfinite_refused_3d() {
        let c: [f64; 3] = [kani::any(), kani::any(), kani::any()];
        let finite = c[0].is_finite() && c[1].is_finite() && c[2].is_finite();
        let p = Point::new(c);
        let pv = p.validate();
        assert!(pv.is_ok() == finite, "Point::validate accepts exactly finite coordinates");
        let v = Vertex::<f64, (), 3>::new_with_uuid(p, uuid_n(9), None);
        let vv = v.is_valid();
        assert!(vv.is_ok() == finite, "Vertex::is_valid refuses non-finite coordinates");
        let sc = safe_coords_to_f64(&c);
        assert!(sc.is_ok() == finite, "safe_coords_to_f64 refuses non-finite coordinates");
        let s1 = safe_scalar_to_f64(c[0]);
        assert!(s1.is_ok() == c[0].is_finite());
        let s2 = safe_scalar_from_f64::<f64>(c[1]);
        assert!(s2.is_ok() == c[1].is_finite());
        kani::cover!(finite, "finite reached");
        kani::cover!(c[2].is_nan(), "NaN reached");
        kani::cover!(c[1].is_infinite(), "infinity reached");
        core::mem::forget(pv);
        core::mem::forget(vv);
        core::mem::forget(sc);
        core::mem::forget(s1);
        core::mem::forget(s2);
    }
}

harness! {
    // bound: hilbert_indices_prequantized D=3, 2 cells of ANY u32 content, ANY u32 bits: Ok iff bits in 1..=31; no panic, loop bounded by bits
    #[kani::unwind(34)]
    fn c19_hilbert_prequantized_unrestricted_3d() {
        let cells: [[u32; 3]; 2] = kani::any();
        let bits: u32 = kani::any();
        let r = hilbert_indices_prequantized::<3>(&cells, bits);
        assert!(r.is_ok() == (bits >= 1 && bits <= 31));
        kani::cover!(r.is_ok(), "Ok reached");
        kani::cover!(r.is_err(), "Err reached");
        core::mem::forget(r);
    }
}

harness! {
    // bound: morton_code D=2..3 with ANY u64 coordinates (above the quantisation range too) and the library's bits_per_coord: no panic
    #[kani::unwind(34)]
    fn c19_morton_unrestricted() {
        let a: [u64; 2] = kani::any();
        let b: [u64; 3] = kani::any();
        let _ = hooks::morton_code::<2>(a, 32);
        let _ = hooks::morton_code::<3>(b, 21);
        kani::cover!(a[0] > u64::from(u32::MAX), "coordinate above the quantisation range reached");
    }
}

harness! {
    // bound: quantize_coords D=2 and HashGridIndex::key_for_coords D=2 over UNRESTRICTED doubles (coordinates, inverse cell, cell size): no panic
    #[kani::unwind(5)]
    fn c19_grid_keys_unrestricted() {
        let c: [f64; 2] = [kani::any(), kani::any()];
        let inv: f64 = kani::any();
        let q = hooks::quantize_coords(&c, inv);
        if q.is_some() {
            assert!(c[0].is_finite() && c[1].is_finite(), "non-finite coordinates are never keyed");
        }
        let size: f64 = kani::any();
        let k = ghooks::key_for_coords::<f64, 2>(size, &c);
        if let Some(k) = k {
            assert!(c[0].is_finite() && c[1].is_finite() && size.is_finite() && size > 0.0);
            assert!(k[0].is_finite() && k[1].is_finite());
        }
        kani::cover!(q.is_some(), "quantised key reached");
        kani::cover!(q.is_none(), "unquantisable reached");
        kani::cover!(k.is_some(), "grid key reached");
        kani::cover!(k.is_none(), "no grid key reached");
    }
}

harness! {
    // bound: select_balanced_simplex_indices / reorder_vertices_for_simplex (hooks), D=2, every input length 0..=3 with UNRESTRICTED coordinates: no panic; fewer than D+1 vertices => None
    #[kani::unwind(7)]
    fn c19_simplex_selection_short_inputs() {
        let v = [
            Vertex::<f64, (), 2>::new_with_uuid(any_pt2(), uuid_n(1), None),
            Vertex::<f64, (), 2>::new_with_uuid(any_pt2(), uuid_n(2), None),
            Vertex::<f64, (), 2>::new_with_uuid(any_pt2(), uuid_n(3), None),
        ];
        let r0 = hooks::select_balanced_simplex_indices(&v[..0]);
        let r1 = hooks::select_balanced_simplex_indices(&v[..1]);
        let r2 = hooks::select_balanced_simplex_indices(&v[..2]);
        let r3 = hooks::select_balanced_simplex_indices(&v[..3]);
        assert!(r0.is_none() && r1.is_none() && r2.is_none(), "fewer than D+1 vertices: no simplex");
        if let Some(sel) = &r3 {
            assert!(sel.len() == 3 && sel[0] < 3 && sel[1] < 3 && sel[2] < 3);
        }
        let e = hooks::reorder_vertices_for_simplex(&v[..0], &[0, 1, 2]);
        assert!(e.is_none());
        kani::cover!(r3.is_some(), "selection on 3 vertices reached");
        kani::cover!(r3.is_none(), "selection refused (non-finite coordinate) reached");
        core::mem::forget(r0);
        core::mem::forget(r1);
        core::mem::forget(r2);
        core::mem::forget(r3);
        core::mem::forget(e);
    }
}

harness! {
    // bound: select_balanced_simplex_indices / reorder_vertices_for_simplex (hooks), D=2, input lengths 0, 1, 2 (fewer than D+1 vertices) with UNRESTRICTED coordinates: None, no panic
    #[kani::unwind(7)]
    fn c19_simplex_selection_too_few_inputs() {
        let v = [
            Vertex::<f64, (), 2>::new_with_uuid(any_pt2(), uuid_n(1), None),
            Vertex::<f64, (), 2>::new_with_uuid(any_pt2(), uuid_n(2), None),
        ];
        let r0 = hooks::select_balanced_simplex_indices(&v[..0]);
        let r1 = hooks::select_balanced_simplex_indices(&v[..1]);
        let r2 = hooks::select_balanced_simplex_indices(&v[..2]);
        assert!(r0.is_none() && r1.is_none() && r2.is_none(), "fewer than D+1 vertices: no simplex");
        let e = hooks::reorder_vertices_for_simplex(&v[..0], &[0, 1, 2]);
        assert!(e.is_none());
        kani::cover!(v[0].point().coords()[0].is_nan(), "non-finite coordinate reached");
        kani::cover!(v[0].point().coords()[0] == 1.0, "finite coordinate reached");
        core::mem::forget(r0);
        core::mem::forget(r1);
        core::mem::forget(r2);
        core::mem::forget(e);
    }
}
