//! harnesses for c19 (filled in below)
