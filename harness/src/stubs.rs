//! Environment stubs (DESIGN.md §1). Each one is part of every claim that uses it.

/// `alloc::fmt::format` → empty string: message *contents* are outside every claim.
pub fn fmt_format(_args: core::fmt::Arguments<'_>) -> String {
    String::new()
}

/// `std::env::var_os` → `None`: the `DELAUNAY_*` debug toggles are off.
pub fn env_var_os<K: AsRef<std::ffi::OsStr>>(_key: K) -> Option<std::ffi::OsString> {
    None
}

/// `tracing_core::callsite::DefaultCallsite::register` → never interested.
pub fn callsite_register(
    _this: &'static tracing_core::callsite::DefaultCallsite,
) -> tracing_core::Interest {
    tracing_core::Interest::never()
}

/// `tracing_core::Event::dispatch` → no-op.
pub fn event_dispatch<'a>(
    _metadata: &'static tracing_core::Metadata<'static>,
    _fields: &'a tracing_core::field::ValueSet<'_>,
) where
    'a: 'a,
{
}

/// `tracing::__macro_support::__is_enabled` → false.
pub fn tracing_is_enabled(
    _meta: &tracing_core::Metadata<'static>,
    _interest: tracing_core::Interest,
) -> bool {
    false
}

/// `delaunay::core::util::uuid::make_uuid` → counter-based, v4-shaped, distinct.
pub fn make_uuid() -> uuid::Uuid {
    static mut COUNTER: u64 = 1;
    // single-threaded harnesses only
    let n = unsafe {
        COUNTER += 1;
        COUNTER
    };
    uuid::Uuid::from_u128((u128::from(n) << 80) | 0x0000_0000_0000_4000_8000_0000_0000_0001_u128)
}
