//! Exact reference model of `f64::rem_euclid`, see DESIGN.md §1.
//!
//! `fmod(x, y)` for finite x, finite y ≠ 0 with |x / y| < 2^52 is computed exactly as
//! `r = fma(-q, |y|, x)` with `q = trunc(x / |y|)` corrected by at most one unit — the
//! true remainder of a floating-point division is always representable, and the fma
//! computes it without rounding. `rem_euclid` is then `r < 0 ? r + |y| : r` exactly as
//! in the standard library.

/// Exact `x % y` (C `fmod`) on the supported domain; `None` outside it.
#[must_use]
pub fn fmod_exact(x: f64, y: f64) -> Option<f64> {
    if !x.is_finite() || !y.is_finite() || y == 0.0 {
        return None;
    }
    let ay = y.abs();
    let ax = x.abs();
    if ax < ay {
        return Some(x);
    }
    let quot = ax / ay;
    if !(quot < 4_503_599_627_370_496.0) {
        return None;
    }
    let mut q = quot.trunc();
    // r = ax - q*ay, exact by fma when q is the true truncated quotient or off by one.
    let mut r = (-q).mul_add(ay, ax);
    if r < 0.0 {
        q -= 1.0;
        r = (-q).mul_add(ay, ax);
    } else if r >= ay {
        q += 1.0;
        r = (-q).mul_add(ay, ax);
    }
    if !(r >= 0.0 && r < ay) {
        return None;
    }
    // sign of the result follows x (also for zero)
    Some(if x.is_sign_negative() { -r } else { r })
}

/// Model of `f64::rem_euclid(x, y)`; falls back to a sentinel NaN outside the exact domain
/// (harnesses assume the domain, so the sentinel is never observed inside a claim).
#[must_use]
pub fn rem_euclid_model(x: f64, y: f64) -> f64 {
    match fmod_exact(x, y) {
        Some(r) => {
            if r < 0.0 {
                r + y.abs()
            } else {
                r
            }
        }
        None => f64::NAN,
    }
}

#[cfg(test)]
mod tests {
    use super::*;

    fn check(x: f64, y: f64) {
        if let Some(m) = fmod_exact(x, y) {
            let n = x % y;
            assert!(m.to_bits() == n.to_bits(), "fmod mismatch x={x:e} y={y:e} model={m:e} native={n:e}");
            let me = rem_euclid_model(x, y);
            let ne = x.rem_euclid(y);
            assert!(me.to_bits() == ne.to_bits(), "rem_euclid mismatch x={x:e} y={y:e} model={me:e} native={ne:e}");
        }
    }

    #[test]
    fn edge_cases() {
        let vals = [
            0.0, -0.0, 1.0, -1.0, 7.5, -7.5, 2.0, 255.0, 7.0, 1e-20, -1e-20, 1e-300, -1e-300,
            f64::MIN_POSITIVE, -f64::MIN_POSITIVE, 5e-324, -5e-324, 1e15, -1e15, 0.1, 0.3, 1.0 - f64::EPSILON,
            1.0 + f64::EPSILON, 3.0, 4503599627370495.5,
        ];
        for &x in &vals {
            for &y in &vals {
                check(x, y);
            }
        }
    }

    #[test]
    fn random_pairs() {
        // xorshift64*, deterministic
        let mut s: u64 = 0x9E37_79B9_7F4A_7C15;
        let mut next = || {
            s ^= s >> 12;
            s ^= s << 25;
            s ^= s >> 27;
            s.wrapping_mul(0x2545_F491_4F6C_DD1D)
        };
        let mut checked = 0_u64;
        for i in 0..10_000_000_u64 {
            let a = next();
            let b = next();
            let (x, y) = if i % 2 == 0 {
                // raw bit patterns
                (f64::from_bits(a), f64::from_bits(b))
            } else {
                // lattice-like: small mantissa, exponents near each other
                let mx = (a & 0xFFF) as f64;
                let my = ((b & 0x3F) + 1) as f64;
                let ex = ((a >> 12) % 120) as i32 - 60;
                let ey = ((b >> 12) % 60) as i32 - 30;
                let sx = if (a >> 40) & 1 == 1 { -1.0 } else { 1.0 };
                (sx * mx * 2f64.powi(ex), my * 2f64.powi(ey))
            };
            if fmod_exact(x, y).is_some() {
                checked += 1;
            }
            check(x, y);
        }
        assert!(checked > 1_000_000, "too few pairs inside the model's domain: {checked}");
    }
}
