//! C17 — orderings are permutations; the Hilbert index is a bijective, unit-step curve;
//! Morton code injective; dedup subset laws.

use crate::util::*;
use delaunay::core::delaunay_triangulation::InsertionOrderStrategy;
use delaunay::core::util::hilbert::{hilbert_index, hilbert_indices_prequantized, hilbert_quantize};
use delaunay::core::util::deduplication::{dedup_vertices_epsilon, dedup_vertices_exact};
use delaunay::core::vertex::Vertex;
use delaunay::geometry::point::Point;
use delaunay::geometry::traits::coordinate::Coordinate;
use delaunay::verif_hooks::dt as hooks;

/// Two symbolic grid cells below 2^bits → the real Skilling transform on both.
/// Asserts: index < 2^(D·bits); equal index ⇒ equal cell (injective ⇒ bijective by
/// counting); index(b) = index(a) + 1 ⇒ L1 distance 1 (unit step).
macro_rules! hilbert_curve {
    ($name:ident, $d:literal, $bits:literal, $unwind:literal) => {
        harness! {
            // bound: D=$d, bits=$bits: every pair of cells of the (2^bits)^D grid, one query
            #[kani::unwind($unwind)]
            fn $name() {
                const D: usize = $d;
                const BITS: u32 = $bits;
                let a: [u32; D] = kani::any();
                let b: [u32; D] = kani::any();
                let mut i = 0;
                while i < D {
                    kani::assume(a[i] < (1u32 << BITS));
                    kani::assume(b[i] < (1u32 << BITS));
                    i += 1;
                }
                let idx = hilbert_indices_prequantized::<D>(&[a, b], BITS);
                let Ok(idx) = idx else {
                    panic!("hilbert_indices_prequantized refused a valid bit depth");
                };
                assert!(idx.len() == 2);
                let (ia, ib) = (idx[0], idx[1]);
                let total_bits = (D as u32) * BITS;
                assert!(ia >> total_bits == 0, "index below 2^(D*bits)");
                assert!(ib >> total_bits == 0, "index below 2^(D*bits)");
                let mut same = true;
                let mut l1: u64 = 0;
                let mut i = 0;
                while i < D {
                    if a[i] != b[i] {
                        same = false;
                    }
                    l1 += u64::from(a[i].abs_diff(b[i]));
                    i += 1;
                }
                if ia == ib {
                    assert!(same, "Hilbert index is injective");
                }
                if ib == ia + 1 {
                    assert!(l1 == 1, "consecutive Hilbert indices are adjacent cells");
                }
                kani::cover!(ia == ib, "equal cells reached");
                kani::cover!(ib == ia + 1, "consecutive indices reached");
                kani::cover!(ia != ib && ib != ia + 1, "non-adjacent indices reached");
            }
        }
    };
}

hilbert_curve!(c17_hilbert_curve_1d_b4, 1, 4, 6);
hilbert_curve!(c17_hilbert_curve_1d_b16, 1, 16, 18);
hilbert_curve!(c17_hilbert_curve_2d_b1, 2, 1, 6);
hilbert_curve!(c17_hilbert_curve_3d_b1, 3, 1, 6);
hilbert_curve!(c17_hilbert_curve_4d_b1, 4, 1, 7);
hilbert_curve!(c17_hilbert_curve_5d_b1, 5, 1, 8);
hilbert_curve!(c17_hilbert_curve_3d_b2, 3, 2, 6);
hilbert_curve!(c17_hilbert_curve_2d_b2, 2, 2, 6);
hilbert_curve!(c17_hilbert_curve_2d_b4, 2, 4, 6);
hilbert_curve!(c17_hilbert_curve_2d_b8, 2, 8, 10);
hilbert_curve!(c17_hilbert_curve_2d_b10, 2, 10, 12);
hilbert_curve!(c17_hilbert_curve_3d_b3, 3, 3, 6);
hilbert_curve!(c17_hilbert_curve_3d_b5, 3, 5, 7);
hilbert_curve!(c17_hilbert_curve_4d_b2, 4, 2, 7);
hilbert_curve!(c17_hilbert_curve_4d_b3, 4, 3, 7);
hilbert_curve!(c17_hilbert_curve_5d_b2, 5, 2, 8);
hilbert_curve!(c17_hilbert_curve_5d_b3, 5, 3, 8);

/// Morton code: injective on its whole domain (each coordinate below 2^bits_per_coord).
macro_rules! morton_injective {
    ($name:ident, $d:literal, $unwind:literal) => {
        harness! {
            // bound: D=$d, whole domain: every pair of D-tuples of (64/D)-bit coordinates
            #[kani::unwind($unwind)]
            fn $name() {
                const D: usize = $d;
                let Some(bits) = hooks::morton_bits_per_coord::<D>() else {
                    panic!("morton_bits_per_coord is None for D in 2..=5");
                };
                assert!(bits == 64 / (D as u32));
                let a: [u64; D] = kani::any();
                let b: [u64; D] = kani::any();
                let mut i = 0;
                while i < D {
                    kani::assume(a[i] >> bits == 0);
                    kani::assume(b[i] >> bits == 0);
                    i += 1;
                }
                let ca = hooks::morton_code::<D>(a, bits);
                let cb = hooks::morton_code::<D>(b, bits);
                let mut same = true;
                let mut i = 0;
                while i < D {
                    if a[i] != b[i] {
                        same = false;
                    }
                    i += 1;
                }
                if ca == cb {
                    assert!(same, "Morton code is injective");
                }
                // monotone in the most significant differing bit of axis 0 vs others: not asserted
                kani::cover!(ca == cb, "equal codes reached");
                kani::cover!(ca != cb, "different codes reached");
            }
        }
    };
}

morton_injective!(c17_morton_injective_2d, 2, 34);
morton_injective!(c17_morton_injective_3d, 3, 23);
morton_injective!(c17_morton_injective_4d, 4, 18);
morton_injective!(c17_morton_injective_5d, 5, 14);

harness! {
    // bound: hilbert_quantize/hilbert_index over unrestricted f64 coords+bounds, bits any u32, D=2
    #[kani::unwind(34)]
    fn c17_hilbert_quantize_range_2d() {
        let coords: [f64; 2] = [kani::any(), kani::any()];
        let bounds: (f64, f64) = (kani::any(), kani::any());
        let bits: u32 = kani::any();
        let q = hilbert_quantize(&coords, bounds, bits);
        let valid_bits = bits >= 1 && bits <= 31;
        match q {
            Ok(q) => {
                assert!(valid_bits);
                let max = (1u32 << bits) - 1;
                assert!(q[0] <= max && q[1] <= max, "quantised component within the grid");
            }
            Err(_) => assert!(!valid_bits, "Err exactly for bits outside 1..=31"),
        }
        kani::cover!(q.is_ok(), "Ok reached");
        kani::cover!(q.is_err(), "Err reached");
    }
}

harness! {
    // bound: hilbert_index Ok/Err characterisation, bits any u32, D=5 (5*bits>128 for bits>=26), coords fixed 0
    #[kani::unwind(34)]
    fn c17_hilbert_index_errs_5d() {
        let coords: [f64; 5] = [0.0; 5];
        let bits: u32 = kani::any();
        kani::assume(bits == 0 || bits > 24);
        let r = hilbert_index(&coords, (0.0, 1.0), bits);
        let ok_expected = bits >= 1 && bits <= 31 && 5 * bits <= 128;
        assert!(r.is_ok() == ok_expected);
        kani::cover!(r.is_ok(), "Ok reached");
        kani::cover!(r.is_err(), "Err reached");
    }
}

// ---------------------------------------------------------------------------
// Orderings are permutations (n = 3, D = 2, grid G = 2, duplicates and ±0.0 allowed)
// ---------------------------------------------------------------------------

fn any_coord_g2() -> f64 {
    let v = any_grid(2);
    let neg_zero: bool = kani::any();
    if v == 0 && neg_zero { -0.0 } else { f64::from(v) }
}

fn any_vertex_2d(n: u64) -> Vertex<f64, i32, 2> {
    let p = Point::new([any_coord_g2(), any_coord_g2()]);
    Vertex::new_with_uuid(p, uuid_n(n), Some(n as i32 * 10))
}

fn same_vertex(a: &Vertex<f64, i32, 2>, b: &Vertex<f64, i32, 2>) -> bool {
    a.uuid().as_u128() == b.uuid().as_u128()
        && a.point().coords()[0].to_bits() == b.point().coords()[0].to_bits()
        && a.point().coords()[1].to_bits() == b.point().coords()[1].to_bits()
        && a.data == b.data
}

fn is_permutation3(input: &[Vertex<f64, i32, 2>; 3], out: &[Vertex<f64, i32, 2>]) -> bool {
    if out.len() != 3 {
        return false;
    }
    // every input vertex occurs exactly once (UUIDs are distinct by construction)
    let mut ok = true;
    let mut i = 0;
    while i < 3 {
        let mut count = 0;
        let mut j = 0;
        while j < 3 {
            if same_vertex(&input[i], &out[j]) {
                count += 1;
            }
            j += 1;
        }
        if count != 1 {
            ok = false;
        }
        i += 1;
    }
    ok
}

macro_rules! ordering_permutation {
    ($name:ident, $strategy:expr, $unwind:literal) => {
        ordering_permutation!($name, $strategy, $unwind, true);
    };
    ($name:ident, $strategy:expr, $unwind:literal, $reorders:literal) => {
        harness! {
            // bound: n=3 vertices, D=2, coordinates in {-2..2} ∪ {-0.0}, duplicates allowed, distinct UUIDs, data carried
            #[kani::unwind($unwind)]
            fn $name() {
                let input = [any_vertex_2d(1), any_vertex_2d(2), any_vertex_2d(3)];
                let out = hooks::order_vertices_by_strategy(input.to_vec(), $strategy);
                assert!(is_permutation3(&input, &out), "ordering returns a permutation of its input");
                if $reorders { kani::cover!(same_vertex(&out[0], &input[2]), "a reordering was reached"); }
                kani::cover!(same_vertex(&out[0], &input[0]), "first stays first was reached");
                core::mem::forget(out);
            }
        }
    };
}

ordering_permutation!(c17_order_input_perm_n3, InsertionOrderStrategy::Input, 6, false);
ordering_permutation!(c17_order_lex_perm_n3, InsertionOrderStrategy::Lexicographic, 6);
ordering_permutation!(c17_order_morton_perm_n3, InsertionOrderStrategy::Morton, 35);
ordering_permutation!(c17_order_hilbert_perm_n3, InsertionOrderStrategy::Hilbert, 35);

// ---------------------------------------------------------------------------
// Dedup laws (n = 3, D = 2, G = 1)
// ---------------------------------------------------------------------------

fn any_vertex_2d_g1(n: u64) -> Vertex<f64, i32, 2> {
    let x = any_grid(1);
    let y = any_grid(1);
    let p = Point::new([f64::from(x), f64::from(y)]);
    Vertex::new_with_uuid(p, uuid_n(n), Some(n as i32))
}

/// Coordinate in {-1, -0.0, +0.0, 1}: signed zeros are equal coordinates for every dedup policy.
fn any_coord_g1_signed_zero() -> f64 {
    let v = any_grid(1);
    let neg_zero: bool = kani::any();
    if v == 0 && neg_zero { -0.0 } else { f64::from(v) }
}

fn any_vertex_2d_g1z(n: u64) -> Vertex<f64, i32, 2> {
    let p = Point::new([any_coord_g1_signed_zero(), any_coord_g1_signed_zero()]);
    Vertex::new_with_uuid(p, uuid_n(n), Some(n as i32))
}

fn coords_eq(a: &Vertex<f64, i32, 2>, b: &Vertex<f64, i32, 2>) -> bool {
    a.point().coords()[0] == b.point().coords()[0] && a.point().coords()[1] == b.point().coords()[1]
}

fn dist_sq(a: &Vertex<f64, i32, 2>, b: &Vertex<f64, i32, 2>) -> f64 {
    let dx = a.point().coords()[0] - b.point().coords()[0];
    let dy = a.point().coords()[1] - b.point().coords()[1];
    dx * dx + dy * dy
}

fn check_exact_dedup(input: &[Vertex<f64, i32, 2>; 3], out: &[Vertex<f64, i32, 2>]) {
    assert!(out.len() >= 1 && out.len() <= 3);
    // survivors are input vertices, each at most once
    let mut j = 0;
    while j < out.len() {
        let mut found = 0;
        let mut i = 0;
        while i < 3 {
            if same_vertex(&input[i], &out[j]) {
                found += 1;
            }
            i += 1;
        }
        assert!(found == 1, "every survivor is an input vertex (no invention)");
        let mut k = j + 1;
        while k < out.len() {
            assert!(!coords_eq(&out[j], &out[k]), "no two survivors share coordinates");
            k += 1;
        }
        j += 1;
    }
    // every input vertex is represented
    let mut i = 0;
    while i < 3 {
        let mut rep = false;
        let mut j = 0;
        while j < out.len() {
            if coords_eq(&input[i], &out[j]) {
                rep = true;
            }
            j += 1;
        }
        assert!(rep, "every input coordinate tuple keeps a representative");
        i += 1;
    }
}

harness! {
    // bound: dedup_vertices_exact, n=3, D=2, coordinates in {-1,-0.0,+0.0,1}, distinct UUIDs
    #[kani::unwind(6)]
    fn c17_dedup_exact_n3() {
        let input = [any_vertex_2d_g1z(1), any_vertex_2d_g1z(2), any_vertex_2d_g1z(3)];
        let out = dedup_vertices_exact(&input);
        check_exact_dedup(&input, &out);
        kani::cover!(out.len() == 2 && input[0].point().coords()[0].to_bits() != input[1].point().coords()[0].to_bits()
            && coords_eq(&input[0], &input[1]), "duplicates differing only in the sign of zero reached");
        kani::cover!(out.len() == 1, "all three equal reached");
        kani::cover!(out.len() == 2, "one duplicate reached");
        kani::cover!(out.len() == 3, "no duplicate reached");
        core::mem::forget(out);
    }
}

harness! {
    // bound: dedup_vertices_exact_sorted (hook), n=3, D=2, coordinates in {-1,-0.0,+0.0,1}, distinct UUIDs
    #[kani::unwind(6)]
    fn c17_dedup_exact_sorted_n3() {
        let input = [any_vertex_2d_g1z(1), any_vertex_2d_g1z(2), any_vertex_2d_g1z(3)];
        let out = hooks::dedup_vertices_exact_sorted(input.to_vec());
        check_exact_dedup(&input, &out);
        kani::cover!(out.len() == 2 && input[0].point().coords()[0].to_bits() != input[1].point().coords()[0].to_bits()
            && coords_eq(&input[0], &input[1]), "duplicates differing only in the sign of zero reached");
        kani::cover!(out.len() == 1, "all three equal reached");
        kani::cover!(out.len() == 2, "one duplicate reached");
        kani::cover!(out.len() == 3, "no duplicate reached");
        core::mem::forget(out);
    }
}

fn check_eps_dedup(input: &[Vertex<f64, i32, 2>; 3], out: &[Vertex<f64, i32, 2>], eps: f64) {
    assert!(out.len() >= 1 && out.len() <= 3);
    let e2 = eps * eps;
    let mut j = 0;
    while j < out.len() {
        let mut found = 0;
        let mut i = 0;
        while i < 3 {
            if same_vertex(&input[i], &out[j]) {
                found += 1;
            }
            i += 1;
        }
        assert!(found == 1, "every survivor is an input vertex (no invention)");
        let mut k = j + 1;
        while k < out.len() {
            assert!(!(dist_sq(&out[j], &out[k]) < e2), "no two survivors within the tolerance");
            k += 1;
        }
        j += 1;
    }
    let mut i = 0;
    while i < 3 {
        let mut rep = false;
        let mut j = 0;
        while j < out.len() {
            if same_vertex(&input[i], &out[j]) || dist_sq(&input[i], &out[j]) < e2 {
                rep = true;
            }
            j += 1;
        }
        assert!(rep, "every dropped vertex is within the tolerance of a survivor");
        i += 1;
    }
}

macro_rules! dedup_eps {
    ($name:ident, $eps:literal, $f:expr) => {
        harness! {
            // bound: epsilon dedup, n=3, D=2, coordinates in {-1,0,1}, eps=$eps
            #[kani::unwind(6)]
            fn $name() {
                let input = [any_vertex_2d_g1(1), any_vertex_2d_g1(2), any_vertex_2d_g1(3)];
                let eps: f64 = $eps;
                let out = ($f)(&input, eps);
                check_eps_dedup(&input, &out, eps);
                kani::cover!(out.len() == 1, "everything merged reached");
                kani::cover!(out.len() == 3, "no merge reached");
                core::mem::forget(out);
            }
        }
    };
}

dedup_eps!(c17_dedup_eps_n3_e125, 1.25, |v: &[Vertex<f64, i32, 2>; 3], e| dedup_vertices_epsilon(v, e));
dedup_eps!(c17_dedup_eps_n3_e150, 1.5, |v: &[Vertex<f64, i32, 2>; 3], e| dedup_vertices_epsilon(v, e));
dedup_eps!(c17_dedup_eps_n2_n3_e125, 1.25, |v: &[Vertex<f64, i32, 2>; 3], e| hooks::dedup_vertices_epsilon_n2(v.to_vec(), e));
dedup_eps!(c17_dedup_eps_n2_n3_e150, 1.5, |v: &[Vertex<f64, i32, 2>; 3], e| hooks::dedup_vertices_epsilon_n2(v.to_vec(), e));

// ---------------------------------------------------------------------------
// Initial-simplex selection / reordering (n = 4, D = 2)
// ---------------------------------------------------------------------------

harness! {
    // bound: reorder_vertices_for_simplex (hook) with arbitrary index triples (any usize), n=4, D=2: Some ⇔ distinct and in range
    #[kani::unwind(7)]
    fn c17_reorder_rejects_bad_indices_n4() {
        let input = [any_vertex_2d(1), any_vertex_2d(2), any_vertex_2d(3), any_vertex_2d(4)];
        let idx: [usize; 3] = kani::any();
        let re = hooks::reorder_vertices_for_simplex(&input, &idx);
        let good = idx[0] < 4 && idx[1] < 4 && idx[2] < 4 && idx[0] != idx[1] && idx[0] != idx[2] && idx[1] != idx[2];
        assert!(re.is_some() == good);
        kani::cover!(re.is_some(), "accepted");
        kani::cover!(re.is_none(), "rejected");
        core::mem::forget(re);
    }
}
