//! harnesses for c09 (filled in below)
