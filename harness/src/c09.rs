//! C09 — duplicate-detection kernels: near points fall into adjacent grid cells (both
//! grids), and the tolerance / equality / ordering relations the dedup paths rely on are coherent.

use crate::util::*;
use core::cmp::Ordering;
use delaunay::core::vertex::Vertex;
use delaunay::geometry::point::Point;
use delaunay::geometry::traits::coordinate::Coordinate;
use delaunay::verif_hooks::dedup as dhooks;
use delaunay::verif_hooks::dt as hooks;
use delaunay::verif_hooks::grid as ghooks;

fn pow2(e: i32) -> f64 {
    f64::from_bits(((1023 + e) as u64) << 52)
}

/// If the linear scan would call `q` a duplicate of `p` (strict `<` on squared distance, as
/// in `duplicate_coordinates_error`), then the hash-grid lookup around `p` must visit `q`'s
/// cell: both keyed ⇒ cell coordinates differ by at most one.
fn check_grid_neighbourhood(s: f64, p: f64, q: f64) -> bool {
    let diff = p - q;
    let scan_says_duplicate = diff * diff < s * s;
    let kp = ghooks::key_for_coords::<f64, 1>(s, &[p]);
    let kq = ghooks::key_for_coords::<f64, 1>(s, &[q]);
    if let (Some(kp), Some(kq)) = (kp, kq) {
        if scan_says_duplicate {
            assert!((kp[0] - kq[0]).abs() <= 1.0, "a point within the tolerance lies in the 3^D block of grid cells that is searched");
        }
        true
    } else {
        false
    }
}

harness! {
    // bound: HashGridIndex::key_for_coords, cell size = the default duplicate tolerance 1e-10, p = i*2^-36 (|i| <= 4096), q = p + j*2^-36 (|j| <= 8)
    #[kani::unwind(4)]
    fn c09_grid_neighbourhood_default_tol_lattice() {
        let s = hooks::default_duplicate_tolerance::<f64>();
        assert!(s == 1e-10);
        let i: i16 = kani::any();
        let j: i8 = kani::any();
        kani::assume(i >= -4096 && i <= 4096 && j >= -8 && j <= 8);
        let unit = pow2(-36);
        let p = f64::from(i) * unit;
        let q = f64::from(i32::from(i) + i32::from(j)) * unit;
        let keyed = check_grid_neighbourhood(s, p, q);
        assert!(keyed, "finite coordinates near the origin are keyed");
        kani::cover!(j == 6 && (p - q) * (p - q) < s * s, "a pair at the edge of the tolerance reached");
        kani::cover!(j == 7 && !((p - q) * (p - q) < s * s), "a pair just outside the tolerance reached");
        kani::cover!(i < 0 && i32::from(i) + i32::from(j) > 0, "a pair straddling zero reached");
    }
}

harness! {
    // bound: key_for_coords, cell size 2^-m (m in 20..=40), p = i*2^-(m+3), q = p + j*2^-(m+3), |i| <= 4096, |j| <= 9
    #[kani::unwind(4)]
    fn c09_grid_neighbourhood_pow2_cells() {
        let m: u8 = kani::any();
        kani::assume(m >= 20 && m <= 40);
        let s = pow2(-i32::from(m));
        let unit = pow2(-i32::from(m) - 3);
        let i: i16 = kani::any();
        let j: i8 = kani::any();
        kani::assume(i >= -4096 && i <= 4096 && j >= -9 && j <= 9);
        let p = f64::from(i) * unit;
        let q = f64::from(i32::from(i) + i32::from(j)) * unit;
        let keyed = check_grid_neighbourhood(s, p, q);
        assert!(keyed);
        kani::cover!(j == 7, "a pair at the edge of the tolerance reached");
        kani::cover!(j == 8, "a pair exactly at the tolerance reached");
    }
}

harness! {
    // bound: key_for_coords with cell size 1e-10 and ALL doubles p, q in [0, 4e-10] (adversarial rounding of p/s near cell boundaries)
    #[kani::unwind(4)]
    fn c09_grid_neighbourhood_doubles_window() {
        let s = 1e-10_f64;
        let p: f64 = kani::any();
        let q: f64 = kani::any();
        kani::assume(p >= 0.0 && p <= 4e-10 && q >= 0.0 && q <= 4e-10);
        let keyed = check_grid_neighbourhood(s, p, q);
        assert!(keyed);
        kani::cover!((p - q) * (p - q) < s * s && p != q, "a near pair reached");
    }
}

/// Same soundness condition for the batch path's integer cells (`quantize_coords`).
fn check_quantized_neighbourhood(eps: f64, p: f64, q: f64) -> bool {
    let inv = 1.0 / eps;
    let diff = p - q;
    let within = diff * diff < eps * eps;
    let kp = hooks::quantize_coords::<f64, 1>(&[p], inv);
    let kq = hooks::quantize_coords::<f64, 1>(&[q], inv);
    if let (Some(kp), Some(kq)) = (kp, kq) {
        if within {
            assert!((i128::from(kp[0]) - i128::from(kq[0])).abs() <= 1, "a point within epsilon lies in the 3^D block of quantised cells that is searched");
        }
        true
    } else {
        false
    }
}

harness! {
    // bound: quantize_coords, eps = 1e-10 and 2^-m (m in 20..=40): p = i*unit, q = p + j*unit with unit = 2^-36 resp. 2^-(m+3), |i| <= 4096, |j| <= 9
    #[kani::unwind(4)]
    fn c09_quantized_neighbourhood_lattice() {
        let use_default: bool = kani::any();
        let m: u8 = kani::any();
        kani::assume(m >= 20 && m <= 40);
        let (eps, unit) = if use_default { (1e-10, pow2(-36)) } else { (pow2(-i32::from(m)), pow2(-i32::from(m) - 3)) };
        let i: i16 = kani::any();
        let j: i8 = kani::any();
        kani::assume(i >= -4096 && i <= 4096 && j >= -9 && j <= 9);
        let p = f64::from(i) * unit;
        let q = f64::from(i32::from(i) + i32::from(j)) * unit;
        let keyed = check_quantized_neighbourhood(eps, p, q);
        assert!(keyed);
        kani::cover!(use_default && j == 6, "default tolerance, edge of the tolerance reached");
        kani::cover!(!use_default && j == 7, "power-of-two cell, edge of the tolerance reached");
    }
}

harness! {
    // bound: coords_within_epsilon D=1 over UNRESTRICTED doubles: NaN never within; identical finite coordinates are within any epsilon with eps^2 > 0
    #[kani::unwind(4)]
    fn c09_within_epsilon_nan_identity_1d() {
        let a: f64 = kani::any();
        let b: f64 = kani::any();
        let eps: f64 = kani::any();
        let ab = dhooks::coords_within_epsilon(&[a], &[b], eps);
        if a.is_nan() || b.is_nan() || eps.is_nan() {
            assert!(!ab, "NaN is never within epsilon of anything");
        }
        if a == b && a.is_finite() && eps.is_finite() && eps * eps > 0.0 {
            assert!(ab, "identical finite coordinates are within any epsilon whose square is positive");
        }
        kani::cover!(ab, "within reached");
        kani::cover!(!ab && a.is_finite() && b.is_finite() && eps > 0.0, "finite not-within reached");
    }
}

harness! {
    // bound: coords_within_epsilon D=2 on the grid [-4,4]^2 x [-4,4]^2 with eps = n/4, n in 1..=24: symmetric and equal to the exact integer comparison 16*dist^2 < n^2
    #[kani::unwind(5)]
    fn c09_within_epsilon_exact_grid_2d() {
        let a = [any_grid(4), any_grid(4)];
        let b = [any_grid(4), any_grid(4)];
        let n: u8 = kani::any();
        kani::assume(n >= 1 && n <= 24);
        let eps = f64::from(n) * 0.25;
        let fa = [f64::from(a[0]), f64::from(a[1])];
        let fb = [f64::from(b[0]), f64::from(b[1])];
        let ab = dhooks::coords_within_epsilon(&fa, &fb, eps);
        let ba = dhooks::coords_within_epsilon(&fb, &fa, eps);
        let d2 = i64::from(a[0] - b[0]) * i64::from(a[0] - b[0]) + i64::from(a[1] - b[1]) * i64::from(a[1] - b[1]);
        let want = 16 * d2 < i64::from(n) * i64::from(n);
        assert!(ab == want, "within-epsilon equals the exact comparison dist^2 < eps^2");
        assert!(ab == ba, "within-epsilon is symmetric");
        kani::cover!(want && d2 > 0, "distinct points within epsilon reached");
        kani::cover!(!want && 16 * d2 == i64::from(n) * i64::from(n), "distance exactly epsilon reached");
    }
}

harness! {
    // bound: coords_equal_exact vs Vertex::partial_cmp vs Vertex::eq, D=2, UNRESTRICTED doubles (±0.0, NaN payloads, infinities)
    #[kani::unwind(5)]
    fn c09_equality_coherent_2d() {
        let a: [f64; 2] = [kani::any(), kani::any()];
        let b: [f64; 2] = [kani::any(), kani::any()];
        let va = Vertex::<f64, (), 2>::new_with_uuid(Point::new(a), uuid_n(1), None);
        let vb = Vertex::<f64, (), 2>::new_with_uuid(Point::new(b), uuid_n(2), None);
        let exact = dhooks::coords_equal_exact(&a, &b);
        let cmp = va.partial_cmp(&vb);
        let eq = va == vb;
        assert!(exact == (cmp == Some(Ordering::Equal)), "exact coordinate equality <=> compares Equal (sorted dedup relies on it)");
        assert!(exact == eq, "exact coordinate equality <=> Vertex ==");
        assert!(cmp.is_some(), "vertex order is total (OrderedFloat semantics)");
        let rev = vb.partial_cmp(&va);
        assert!(rev == cmp.map(Ordering::reverse), "vertex order is antisymmetric");
        kani::cover!(exact && a[0].to_bits() != b[0].to_bits(), "equal with different bits (+0/-0 or NaN payloads) reached");
        kani::cover!(!exact, "unequal reached");
        kani::cover!(a[0].is_nan() && b[0].is_nan(), "NaN vs NaN reached");
    }
}
