//! Intrinsic-model conformance: Kani's models of the float operations the claimed kernels
//! reach must agree with the natively validated table in `conf_table`.

use crate::conf_table::{eval, TABLE};

/// A symbolic f64 pinned to a constant, so that neither rustc nor CBMC's front end can
/// constant-fold the operation under test.
fn pin(v: f64) -> f64 {
    let x: f64 = kani::any();
    kani::assume(x.to_bits() == v.to_bits());
    x
}

harness! {
    // bound: 36 pinned operand tuples at rounding boundaries; mul_add, /, *, +, -, round, floor, trunc, abs, max, min, casts
    #[kani::unwind(40)]
    fn conf_float_ops() {
        let mut i = 0;
        while i < TABLE.len() {
            let (op, a, b, c, want) = TABLE[i];
            let got = eval(op, pin(a), pin(b), pin(c));
            assert!(got == want, "Kani intrinsic model agrees with the native result");
            i += 1;
        }
        kani::cover!(i == TABLE.len(), "whole table evaluated");
    }
}

harness! {
    // bound: wrapping/checked integer sanity; used to pre-build lanes
    fn conf_int_ops() {
        let a: u32 = kani::any();
        let b: u32 = kani::any();
        assert!(a.wrapping_add(b).wrapping_sub(b) == a);
        assert!(a.abs_diff(b) == b.abs_diff(a));
        kani::cover!(a.checked_add(b).is_none(), "overflow reachable");
    }
}
