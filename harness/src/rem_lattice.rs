//! Exact `fmod` for operands with short significands and ANY exponent gap (huge quotients),
//! in pure integer arithmetic: square-and-multiply for 2^k mod m. See DESIGN.md §1.

/// Decomposes a finite non-zero double into (integer significand with trailing zeros removed
/// down to at most `max_bits` bits, exponent): |x| = sig * 2^exp. `None` if the significand
/// needs more than `max_bits` bits or x is zero / subnormal / non-finite.
#[must_use]
pub fn decompose(x: f64, max_bits: u32) -> Option<(u64, i32)> {
    let bits = x.to_bits();
    let e = ((bits >> 52) & 0x7ff) as i32;
    if e == 0 || e == 0x7ff {
        return None;
    }
    let frac = bits & ((1_u64 << 52) - 1);
    let keep = max_bits - 1; // explicit fraction bits kept
    let low_mask = (1_u64 << (52 - keep)) - 1;
    if frac & low_mask != 0 {
        return None;
    }
    let sig = (1_u64 << keep) | (frac >> (52 - keep));
    Some((sig, e - 1023 - keep as i32))
}

/// `2^k mod m` for 0 <= k < 2048, 1 <= m < 2^8 (11 squarings, no u16 overflow).
#[must_use]
pub fn pow2_mod(k: u32, m: u16) -> u16 {
    let mut result = 1 % m;
    let mut base = 2 % m;
    let mut i = 0;
    while i < 11 {
        if (k >> i) & 1 == 1 {
            result = (result * base) % m;
        }
        base = (base * base) % m;
        i += 1;
    }
    result
}

/// Exact C `fmod(x, y)` for x with a significand of at most 12 bits and y with at most 7 bits
/// (normal numbers, or x = ±0), and for any finite |x| < |y|; `None` otherwise.
#[must_use]
pub fn fmod_lattice(x: f64, y: f64) -> Option<f64> {
    if x == 0.0 {
        return if y.is_finite() && y != 0.0 { Some(x) } else { None };
    }
    if x.is_finite() && y.is_finite() && x.abs() < y.abs() {
        // already reduced (any significand): fmod is the identity — needed for idempotence checks,
        // whose second wrap receives a value that may have left the short-significand lattice
        return Some(x);
    }
    let (mx, ex) = decompose(x, 12)?;
    let (my, ey) = decompose(y, 7)?;
    let neg = x.is_sign_negative();
    let (r_sig, r_exp): (u64, i32) = if ex >= ey {
        let k = (ex - ey) as u32;
        if k >= 2048 {
            return None;
        }
        // (mx * 2^k) mod my, scaled by 2^ey
        let (mx16, my16) = (mx as u16, my as u16);
        (u64::from(((mx16 % my16) * pow2_mod(k, my16)) % my16), ey)
    } else {
        let shift = (ey - ex) as u32;
        if shift >= 6 {
            // |x| < 2^12 * 2^ex <= 2^6 * 2^ey <= |y|: x is already reduced
            return Some(x);
        }
        (u64::from((mx as u32) % ((my as u32) << shift)), ex)
    };
    // r_sig < 2^13: exactly representable; scale by an exact power of two
    if r_exp < -1022 || r_exp > 1000 {
        return None;
    }
    // r = r_sig * 2^r_exp without a floating-point multiplication: convert the small integer
    // exactly, then add r_exp to the exponent field (the result stays a normal number).
    let r = if r_sig == 0 {
        0.0
    } else {
        let b = (r_sig as f64).to_bits();
        f64::from_bits((b as i64 + (i64::from(r_exp) << 52)) as u64)
    };
    Some(if neg { -r } else { r })
}

/// Model of `f64::rem_euclid` on the lattice (NaN sentinel outside it).
#[must_use]
pub fn rem_euclid_lattice(x: f64, y: f64) -> f64 {
    match fmod_lattice(x, y) {
        Some(r) => {
            if r < 0.0 {
                r + y.abs()
            } else {
                r
            }
        }
        None => f64::NAN,
    }
}

#[cfg(test)]
mod tests {
    use super::*;

    #[test]
    fn lattice_model_matches_native_rem_euclid() {
        let mut s: u64 = 0x9E37_79B9_7F4A_7C15;
        let mut next = || {
            s ^= s >> 12;
            s ^= s << 25;
            s ^= s >> 27;
            s.wrapping_mul(0x2545_F491_4F6C_DD1D)
        };
        let mut huge = 0_u64;
        for i in 0..20_000_000_u64 {
            let a = next();
            let b = next();
            let mx = (1_u64 << 11) | (a & 0x7ff);
            let my = (1_u64 << 6) | (b & 0x3f);
            let fy = ((b >> 16) % 61) as i32 - 30;
            // half of the samples: exponent of x anywhere in -1000..=300; other half: near y's exponent
            let fx = if i % 2 == 0 { ((a >> 16) % 1301) as i32 - 1000 } else { fy + ((a >> 16) % 24) as i32 - 12 };
            let sx = if (a >> 40) & 1 == 1 { -1.0 } else { 1.0 };
            let x = sx * (mx as f64) * 2f64.powi(fx - 11);
            let y = (my as f64) * 2f64.powi(fy - 6);
            let m = fmod_lattice(x, y).expect("lattice input");
            let n = x % y;
            assert!(m.to_bits() == n.to_bits(), "fmod mismatch x={x:e} y={y:e} model={m:e} native={n:e}");
            let me = rem_euclid_lattice(x, y);
            let ne = x.rem_euclid(y);
            assert!(me.to_bits() == ne.to_bits(), "rem_euclid mismatch x={x:e} y={y:e} model={me:e} native={ne:e}");
            if (x / y).abs() > 9e15 {
                huge += 1;
            }
        }
        assert!(huge > 1_000_000, "too few huge-quotient samples: {huge}");
        // identity fast path: arbitrary significands with |x| < |y|
        for _ in 0..2_000_000_u64 {
            let x = f64::from_bits(next());
            let y = f64::from_bits(next());
            if x.is_finite() && y.is_finite() && x.abs() < y.abs() {
                let m = fmod_lattice(x, y).expect("reduced input");
                assert!(m.to_bits() == (x % y).to_bits(), "identity path x={x:e} y={y:e}");
                assert!(rem_euclid_lattice(x, y).to_bits() == x.rem_euclid(y).to_bits(), "identity path rem_euclid x={x:e} y={y:e}");
            }
        }
        for &(x, y) in &[(0.0, 1.0), (-0.0, 3.0), (1.0, 1.0), (3.0, 0.75), (-7.5, 2.0), (255.0, 7.0), (1.0e-300_f64, 1.0), (-1e-20, 1.0)] {
            if let Some(m) = fmod_lattice(x, y) {
                assert!(m.to_bits() == (x % y).to_bits(), "{x} {y}");
                assert!(rem_euclid_lattice(x, y).to_bits() == x.rem_euclid(y).to_bits(), "{x} {y}");
            }
        }
    }
}
