//! C14 — order-independence kernels: the Lexicographic / Morton / Hilbert insertion orderings do
//! not depend on the order in which the caller listed the vertices.

use crate::util::*;
use delaunay::core::delaunay_triangulation::InsertionOrderStrategy;
use delaunay::core::vertex::Vertex;
use delaunay::geometry::point::Point;
use delaunay::geometry::traits::coordinate::Coordinate;
use delaunay::verif_hooks::dt as hooks;

fn vtx(x: i32, y: i32, n: u64) -> Vertex<f64, (), 2> {
    Vertex::new_with_uuid(Point::new([f64::from(x), f64::from(y)]), uuid_n(n), None)
}

macro_rules! order_independent {
    ($name:ident, $strategy:expr, $unwind:literal) => {
        harness! {
            // bound: n=3 vertices, D=2, integer coordinates in [-2,2], every permutation of the input list
            #[kani::unwind($unwind)]
            fn $name() {
                let c = [[any_grid(2), any_grid(2)], [any_grid(2), any_grid(2)], [any_grid(2), any_grid(2)]];
                let v = [vtx(c[0][0], c[0][1], 1), vtx(c[1][0], c[1][1], 2), vtx(c[2][0], c[2][1], 3)];
                let p: u8 = kani::any();
                kani::assume(p < 5);
                let perm: [usize; 3] = match p {
                    0 => [0, 2, 1],
                    1 => [1, 0, 2],
                    2 => [1, 2, 0],
                    3 => [2, 0, 1],
                    _ => [2, 1, 0],
                };
                let w = [v[perm[0]], v[perm[1]], v[perm[2]]];
                let a = hooks::order_vertices_by_strategy(v.to_vec(), $strategy);
                let b = hooks::order_vertices_by_strategy(w.to_vec(), $strategy);
                assert!(a.len() == 3 && b.len() == 3);
                let ne = |a: [i32; 2], b: [i32; 2]| a[0] != b[0] || a[1] != b[1];
                let distinct = ne(c[0], c[1]) && ne(c[0], c[2]) && ne(c[1], c[2]);
                let mut i = 0;
                while i < 3 {
                    // the coordinate sequence never depends on the input order
                    assert!(a[i].point().coords()[0] == b[i].point().coords()[0]
                        && a[i].point().coords()[1] == b[i].point().coords()[1],
                        "insertion order (as coordinates) is independent of the input order");
                    if distinct {
                        assert!(a[i].uuid().as_u128() == b[i].uuid().as_u128(),
                            "insertion order (as vertices) is independent of the input order");
                    }
                    i += 1;
                }
                kani::cover!(distinct && p == 4, "distinct points, reversed input reached");
                kani::cover!(!distinct, "duplicate coordinates reached");
                core::mem::forget(a);
                core::mem::forget(b);
            }
        }
    };
}

order_independent!(c14_order_independent_lex_n3, InsertionOrderStrategy::Lexicographic, 6);
order_independent!(c14_order_independent_morton_n3, InsertionOrderStrategy::Morton, 35);
order_independent!(c14_order_independent_hilbert_n3, InsertionOrderStrategy::Hilbert, 35);

harness! {
    // bound: determinism: the same n=3 input ordered twice gives the identical sequence, every strategy, D=2, coordinates in [-2,2]
    #[kani::unwind(35)]
    fn c14_order_deterministic_n3() {
        let v = [vtx(any_grid(2), any_grid(2), 1), vtx(any_grid(2), any_grid(2), 2), vtx(any_grid(2), any_grid(2), 3)];
        let s: u8 = kani::any();
        kani::assume(s < 3);
        let strategy = match s {
            0 => InsertionOrderStrategy::Input,
            1 => InsertionOrderStrategy::Lexicographic,
            _ => InsertionOrderStrategy::Morton,
        };
        let a = hooks::order_vertices_by_strategy(v.to_vec(), strategy);
        let b = hooks::order_vertices_by_strategy(v.to_vec(), strategy);
        let mut i = 0;
        while i < 3 {
            assert!(a[i].uuid().as_u128() == b[i].uuid().as_u128(), "ordering the same input twice gives the same sequence");
            i += 1;
        }
        kani::cover!(s == 2, "Morton reached");
        core::mem::forget(a);
        core::mem::forget(b);
    }
}

/// Same claim on a *cluster*: a frame point fixes the bounding range, two further vertices sit
/// so close together (multiples of 2^-40 in a range of 4) that they quantise to the same
/// Hilbert / Morton cell; their relative order must still not depend on the input order.
macro_rules! order_independent_cluster {
    ($name:ident, $strategy:expr, $unwind:literal) => {
        harness! {
            // bound: n=3, D=2: frame vertex (-2,2) + two cluster vertices with coordinates in {0,1,2,3}*2^-40, every permutation of the input list
            #[kani::unwind($unwind)]
            fn $name() {
                let unit = f64::from_bits((1023_u64 - 40) << 52);
                let c: [[u8; 2]; 2] = kani::any();
                kani::assume(c[0][0] < 4 && c[0][1] < 4 && c[1][0] < 4 && c[1][1] < 4);
                let mk = |k: [u8; 2], n: u64| Vertex::<f64, (), 2>::new_with_uuid(
                    Point::new([f64::from(k[0]) * unit, f64::from(k[1]) * unit]), uuid_n(n), None);
                let v = [vtx(-2, 2, 1), mk(c[0], 2), mk(c[1], 3)];
                let p: u8 = kani::any();
                kani::assume(p < 5);
                let perm: [usize; 3] = match p {
                    0 => [0, 2, 1],
                    1 => [1, 0, 2],
                    2 => [1, 2, 0],
                    3 => [2, 0, 1],
                    _ => [2, 1, 0],
                };
                let w = [v[perm[0]], v[perm[1]], v[perm[2]]];
                let a = hooks::order_vertices_by_strategy(v.to_vec(), $strategy);
                let b = hooks::order_vertices_by_strategy(w.to_vec(), $strategy);
                assert!(a.len() == 3 && b.len() == 3);
                let distinct = c[0][0] != c[1][0] || c[0][1] != c[1][1];
                let mut i = 0;
                while i < 3 {
                    assert!(a[i].point().coords()[0] == b[i].point().coords()[0]
                        && a[i].point().coords()[1] == b[i].point().coords()[1],
                        "insertion order (as coordinates) is independent of the input order");
                    if distinct {
                        assert!(a[i].uuid().as_u128() == b[i].uuid().as_u128(),
                            "insertion order (as vertices) is independent of the input order");
                    }
                    i += 1;
                }
                kani::cover!(distinct && p == 0, "distinct cluster points, swapped input reached");
                core::mem::forget(a);
                core::mem::forget(b);
            }
        }
    };
}

order_independent_cluster!(c14_order_independent_morton_cluster_n3, InsertionOrderStrategy::Morton, 35);
order_independent_cluster!(c14_order_independent_hilbert_cluster_n3, InsertionOrderStrategy::Hilbert, 35);
order_independent_cluster!(c14_order_independent_lex_cluster_n3, InsertionOrderStrategy::Lexicographic, 6);
