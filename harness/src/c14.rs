//! harnesses for c14 (filled in below)
