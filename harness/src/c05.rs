//! C05 — container-free validator kernels: Level-1 vertex validity, permutation parity,
//! facet-key identity (injectivity / order independence).

use crate::util::*;
use delaunay::core::facet::facet_key_from_vertices;
use delaunay::core::triangulation_data_structure::VertexKey;
use delaunay::core::util::uuid::validate_uuid;
use delaunay::core::vertex::Vertex;
use delaunay::core::edge::EdgeKey;
use delaunay::geometry::point::Point;
use delaunay::geometry::traits::coordinate::Coordinate;
use delaunay::verif_hooks::tds as thooks;
use slotmap::{Key, KeyData};

harness! {
    // bound: Vertex::is_valid, D=3, UNRESTRICTED coordinates and ALL 2^128 UUID bit patterns (whole domain)
    #[kani::unwind(6)]
    fn c05_vertex_is_valid_exact_3d() {
        let c: [f64; 3] = [kani::any(), kani::any(), kani::any()];
        let bits: u128 = kani::any();
        let uuid = uuid::Uuid::from_u128(bits);
        let v = Vertex::<f64, (), 3>::new_with_uuid(Point::new(c), uuid, None);
        let finite = c[0].is_finite() && c[1].is_finite() && c[2].is_finite();
        // RFC 4122: version = high nibble of byte 6 = bits 76..80 of the big-endian u128
        let version = (bits >> 76) & 0xF;
        let expected = finite && bits != 0 && version == 4;
        let r = v.is_valid();
        assert!(r.is_ok() == expected, "Vertex::is_valid <=> finite coordinates, non-nil UUID, version 4");
        let u = validate_uuid(&uuid);
        assert!(u.is_ok() == (bits != 0 && version == 4), "validate_uuid <=> non-nil and version 4");
        kani::cover!(expected, "valid vertex reached");
        kani::cover!(finite && bits == 0, "nil UUID reached");
        kani::cover!(finite && bits != 0 && version != 4, "wrong version reached");
        kani::cover!(!finite && version == 4, "non-finite coordinate reached");
        core::mem::forget(r);
        core::mem::forget(u);
    }
}

/// Parity of the permutation taking `src` to `dst` from its cycle structure (reference).
fn parity_by_cycles<const N: usize>(src: &[u8; N], dst: &[u8; N]) -> Option<bool> {
    // position map: pos[i] = index in dst of src[i]; requires all entries distinct
    let mut pos = [0_usize; N];
    let mut i = 0;
    while i < N {
        let mut found = N;
        let mut j = 0;
        while j < N {
            if dst[j] == src[i] {
                found = j;
            }
            j += 1;
        }
        if found == N {
            return None;
        }
        pos[i] = found;
        i += 1;
    }
    let mut seen = [false; N];
    let mut transpositions = 0;
    let mut i = 0;
    while i < N {
        if !seen[i] {
            let mut len = 0;
            let mut j = i;
            let mut guard = 0;
            while !seen[j] && guard < N {
                seen[j] = true;
                j = pos[j];
                len += 1;
                guard += 1;
            }
            transpositions += len - 1;
        }
        i += 1;
    }
    Some(transpositions % 2 == 1)
}

macro_rules! parity {
    ($name:ident, $n:literal, $unwind:literal) => {
        harness! {
            // bound: Tds::permutation_is_odd on id lists of length N over an alphabet of 8 ids: distinct ids => parity from the cycle structure; not a permutation => None
            #[kani::unwind($unwind)]
            fn $name() {
                const N: usize = $n;
                let src: [u8; N] = kani::any();
                let dst: [u8; N] = kani::any();
                let mut distinct = true;
                let mut i = 0;
                while i < N {
                    kani::assume(src[i] < 8 && dst[i] < 8);
                    let mut j = i + 1;
                    while j < N {
                        if src[i] == src[j] {
                            distinct = false;
                        }
                        j += 1;
                    }
                    i += 1;
                }
                kani::assume(distinct); // cells never repeat a vertex
                let got = thooks::permutation_is_odd(&src, &dst);
                let want = parity_by_cycles(&src, &dst);
                assert!(got == want, "permutation parity equals the parity of the cycle structure; None iff not a permutation");
                kani::cover!(want == Some(true), "odd permutation reached");
                kani::cover!(want == Some(false), "even permutation reached");
                kani::cover!(want.is_none(), "not a permutation reached");
            }
        }
    };
}

parity!(c05_permutation_parity_n3, 3, 6);
parity!(c05_permutation_parity_n4, 4, 7);
parity!(c05_permutation_parity_n5, 5, 8);

harness! {
    // bound: Tds::permutation_is_odd with lists of different (concrete) lengths: None
    #[kani::unwind(7)]
    fn c05_permutation_parity_length_mismatch() {
        let a: [u8; 4] = [kani::any(), kani::any(), kani::any(), kani::any()];
        let b: [u8; 4] = [kani::any(), kani::any(), kani::any(), kani::any()];
        assert!(thooks::permutation_is_odd(&a[..3], &b[..4]).is_none());
        assert!(thooks::permutation_is_odd(&a[..4], &b[..3]).is_none());
        assert!(thooks::permutation_is_odd(&a[..0], &b[..1]).is_none());
        assert!(thooks::permutation_is_odd(&a[..0], &b[..0]) == Some(false));
        kani::cover!(a[0] == b[0], "equal leading ids reached");
    }
}

fn vkey(version: u32, idx: u32) -> VertexKey {
    VertexKey::from(KeyData::from_ffi((u64::from(version) << 32) | u64::from(idx)))
}

harness! {
    // bound: facet_key_from_vertices on 2-key facets, slot-map keys with version 1 (NO slot reuse), index < 2^20: distinct sorted tuples => distinct keys
    #[kani::unwind(5)]
    fn c05_facet_key_injective_no_reuse() {
        let a0: u32 = kani::any();
        let a1: u32 = kani::any();
        let b0: u32 = kani::any();
        let b1: u32 = kani::any();
        kani::assume(a0 < a1 && b0 < b1);
        kani::assume(a1 < (1 << 20) && b1 < (1 << 20));
        kani::assume(a0 != b0 || a1 != b1);
        let ka = facet_key_from_vertices(&[vkey(1, a0), vkey(1, a1)]);
        let kb = facet_key_from_vertices(&[vkey(1, b0), vkey(1, b1)]);
        assert!(ka != kb, "facet key is injective on sorted key tuples");
        kani::cover!(a0 == b0, "facets sharing a vertex reached");
    }
}

harness! {
    // bound: facet_key_from_vertices on 2-key facets, versions odd <= 1023 (slot reuse), index < 4096, one version per slot: distinct sorted tuples => distinct keys (KNOWN FINDING F2: fails)
    #[kani::unwind(5)]
    fn c05_facet_key_injective_with_reuse() {
        let idx: [u32; 4] = kani::any();
        let ver: [u32; 4] = kani::any();
        let mut i = 0;
        while i < 4 {
            kani::assume(idx[i] < 4096);
            kani::assume(ver[i] <= 1023 && ver[i] % 2 == 1); // occupied slots have odd versions
            let mut j = i + 1;
            while j < 4 {
                // a live slot has exactly one version
                kani::assume(idx[i] != idx[j] || ver[i] == ver[j]);
                j += 1;
            }
            i += 1;
        }
        let k = [vkey(ver[0], idx[0]), vkey(ver[1], idx[1]), vkey(ver[2], idx[2]), vkey(ver[3], idx[3])];
        let raw = |x: VertexKey| x.data().as_ffi();
        // two facets {k0,k1} and {k2,k3}, each with distinct vertices, different as sets
        kani::assume(raw(k[0]) < raw(k[1]) && raw(k[2]) < raw(k[3]));
        kani::assume(raw(k[0]) != raw(k[2]) || raw(k[1]) != raw(k[3]));
        let ka = facet_key_from_vertices(&[k[0], k[1]]);
        let kb = facet_key_from_vertices(&[k[2], k[3]]);
        assert!(ka != kb, "facet key is injective on sorted key tuples");
        kani::cover!(ver[0] != ver[1], "different versions reached");
    }
}

harness! {
    // bound: facet_key_from_vertices on 3-key facets (D=3), version 1, index < 2^10: distinct sorted tuples => distinct keys
    #[kani::unwind(6)]
    fn c05_facet_key_injective_no_reuse_3keys() {
        let a: [u32; 3] = kani::any();
        let b: [u32; 3] = kani::any();
        kani::assume(a[0] < a[1] && a[1] < a[2] && b[0] < b[1] && b[1] < b[2]);
        kani::assume(a[2] < (1 << 10) && b[2] < (1 << 10));
        kani::assume(a[0] != b[0] || a[1] != b[1] || a[2] != b[2]);
        let ka = facet_key_from_vertices(&[vkey(1, a[0]), vkey(1, a[1]), vkey(1, a[2])]);
        let kb = facet_key_from_vertices(&[vkey(1, b[0]), vkey(1, b[1]), vkey(1, b[2])]);
        assert!(ka != kb, "facet key is injective on sorted key tuples");
        kani::cover!(a[0] == b[0] && a[1] == b[1], "facets sharing an edge reached");
    }
}

harness! {
    // bound: facet_key_from_vertices order independence: 2 keys, index < 64, version in {1,3}: swapping the keys gives the same facet key
    #[kani::unwind(5)]
    fn c05_facet_key_order_independent_2keys() {
        let idx: [u32; 2] = kani::any();
        let v3: [bool; 2] = kani::any();
        kani::assume(idx[0] < 64 && idx[1] < 64);
        let k = [vkey(if v3[0] { 3 } else { 1 }, idx[0]), vkey(if v3[1] { 3 } else { 1 }, idx[1])];
        assert!(facet_key_from_vertices(&[k[0], k[1]]) == facet_key_from_vertices(&[k[1], k[0]]), "facet key does not depend on vertex order");
        assert!(facet_key_from_vertices(&[]) == 0);
        kani::cover!(k[0].data().as_ffi() > k[1].data().as_ffi(), "unsorted input reached");
        kani::cover!(k[0].data().as_ffi() < k[1].data().as_ffi(), "sorted input reached");
    }
}

harness! {
    // bound: facet_key_from_vertices order independence: 3 keys, index < 8, version 1, every permutation
    #[kani::unwind(6)]
    fn c05_facet_key_order_independent_3keys() {
        let idx: [u32; 3] = kani::any();
        kani::assume(idx[0] < 8 && idx[1] < 8 && idx[2] < 8);
        let k = [vkey(1, idx[0]), vkey(1, idx[1]), vkey(1, idx[2])];
        let base = facet_key_from_vertices(&[k[0], k[1], k[2]]);
        let p: u8 = kani::any();
        kani::assume(p < 5);
        let perm = match p {
            0 => [k[0], k[2], k[1]],
            1 => [k[1], k[0], k[2]],
            2 => [k[1], k[2], k[0]],
            3 => [k[2], k[0], k[1]],
            _ => [k[2], k[1], k[0]],
        };
        assert!(facet_key_from_vertices(&perm) == base, "facet key does not depend on vertex order");
        kani::cover!(p == 4 && idx[0] > idx[2], "a reversing permutation of unsorted keys reached");
    }
}

harness! {
    // bound: EdgeKey::new over ALL pairs of 64-bit slot-map key patterns: symmetric, endpoints ordered by raw key, endpoints are the inputs
    fn c05_edge_key_canonical() {
        let a = VertexKey::from(KeyData::from_ffi(kani::any()));
        let b = VertexKey::from(KeyData::from_ffi(kani::any()));
        let e1 = EdgeKey::new(a, b);
        let e2 = EdgeKey::new(b, a);
        assert!(e1 == e2, "an edge has one canonical key");
        let (x, y) = e1.endpoints();
        assert!(x.data().as_ffi() <= y.data().as_ffi());
        assert!((x == a && y == b) || (x == b && y == a));
        kani::cover!(a.data().as_ffi() > b.data().as_ffi(), "swap reached");
    }
}
