//! harnesses for c05 (filled in below)
