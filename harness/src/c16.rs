//! C16 — toroidal wrapping: half-open box, identity on the box, idempotence, congruence
//! modulo the period, `None`/`Err` on bad input — for all wrapping sites.
//!
//! `f64::rem_euclid` is replaced by the exact reference model `rem_model::rem_euclid_model`
//! (Kani's own model of float `%` is not faithful, DESIGN.md §1). Counterexamples are replayed
//! natively against the real `f64::rem_euclid` (playback does not apply stubs).

use crate::util::*;
use delaunay::core::vertex::Vertex;
use delaunay::geometry::point::Point;
use delaunay::geometry::traits::coordinate::Coordinate;
use delaunay::topology::spaces::ToroidalSpace;
use delaunay::topology::traits::TopologicalSpace;
use delaunay::verif_hooks::builder as bhooks;
use delaunay::verif_hooks::topology as thooks;

/// Declares a C16 harness: standard stubs + the exact `rem_euclid` model.
macro_rules! harness16 {
    ($(#[$m:meta])* fn $name:ident() $body:block) => {
        harness! {
            #[kani::stub(f64::rem_euclid, crate::rem_model::rem_euclid_model)]
            $(#[$m])*
            fn $name() $body
        }
    };
}

/// Same, with the integer lattice model (exact for ANY exponent gap, i.e. points arbitrarily
/// far outside the box) — only for harnesses whose inputs stay on the lattice.
macro_rules! harness16l {
    ($(#[$m:meta])* fn $name:ident() $body:block) => {
        harness! {
            #[kani::stub(f64::rem_euclid, crate::rem_lattice::rem_euclid_lattice)]
            $(#[$m])*
            fn $name() $body
        }
    };
}

/// Coordinate on the far lattice: ±(12-bit significand) times 2^f, -1000 <= f <= 300, or ±0 —
/// up to 2^330 periods away from the box.
fn any_value_far() -> f64 {
    let zero: bool = kani::any();
    let neg: bool = kani::any();
    let sign = if neg { 1_u64 << 63 } else { 0 };
    if zero {
        return f64::from_bits(sign);
    }
    let m: u16 = kani::any();
    kani::assume(m < 2048);
    let f: i16 = kani::any();
    kani::assume(f >= -1000 && f <= 300);
    let exp = (1023_i64 + i64::from(f)) as u64;
    f64::from_bits(sign | (exp << 52) | (u64::from(m) << 41))
}

/// Box, identity and congruence against the exact residue (integer model),
/// for coordinates arbitrarily far outside the box.
fn check_wrap_far(v: f64, l: f64, w: f64) {
    assert!(w >= 0.0 && w < l, "wrapped coordinate lies in the half-open box [0, L)");
    if v >= 0.0 && v < l {
        assert!(w == v, "a coordinate already in the box is unchanged");
    }
    // exact residue of v modulo L in (-L, L), as a double (exact on the lattice)
    let Some(r) = crate::rem_lattice::fmod_lattice(v, l) else { panic!("lattice input outside the model") };
    let r = if r < 0.0 { r + l } else { r }; // one rounding, at most ulp(L)/2
    let d = (r - w).abs();
    let tol = l * f64::from_bits((1023_u64 - 49) << 52); // L * 2^-49
    assert!(d <= tol || (d - l).abs() <= tol, "wrapped coordinate is congruent to the input modulo the period");
}

harness16l! {
    // bound: wrap_coord<f64>, D=1, far lattice: L (7-bit significand, |e|<=30) x v (12-bit significand, 2^-1000..2^300, ±0): all four clauses
    #[kani::unwind(13)]
    fn c16_wrap_coord_far_lattice_1d() {
        let l = any_period();
        let v = any_value_far();
        let space = ToroidalSpace::<1>::new([l]);
        let Some(w) = space.wrap_coord::<f64>(0, v) else { panic!("finite input with a positive finite period was refused") };
        check_wrap_far(v, l, w);
        kani::cover!(v < 0.0 && w == 0.0, "a negative coordinate wraps to 0.0 (clamp exercised)");
        kani::cover!(v.abs() > l * 1e30 && w > 0.0, "a coordinate more than 1e30 periods away wraps into the interior");
        kani::cover!(v == l, "v == L reached");
        kani::cover!(v >= 0.0 && v < l, "v inside the box reached");
    }
}

harness16l! {
    // bound: ToroidalModel::canonicalize_point_in_place<f64> (hook), D=1, far lattice: all four clauses
    #[kani::unwind(13)]
    fn c16_model_canonicalize_far_lattice_1d() {
        let l = any_period();
        let v = any_value_far();
        let mut c = [v];
        let r = thooks::toroidal_canonicalize_point_in_place::<f64, 1>([l], &mut c);
        assert!(r.is_ok(), "finite input with a positive finite period is accepted");
        check_wrap_far(v, l, c[0]);
        kani::cover!(v < 0.0 && c[0] == 0.0, "a negative coordinate wraps to 0.0 (clamp exercised)");
        kani::cover!(v.abs() > l * 1e30 && c[0] > 0.0, "a coordinate more than 1e30 periods away wraps into the interior");
        core::mem::forget(r);
    }
}

harness16l! {
    // bound: TopologicalSpace::canonicalize_point, D=2 (axis 0 symbolic), far lattice: all four clauses
    #[kani::unwind(13)]
    fn c16_canonicalize_point_far_lattice_2d() {
        let l = any_period();
        let v = any_value_far();
        let space = ToroidalSpace::<2>::new([l, 2.0]);
        let mut c = [v, -3.5];
        space.canonicalize_point(&mut c);
        check_wrap_far(v, l, c[0]);
        assert!(c[1] == 0.5);
        kani::cover!(v < 0.0 && c[0] == 0.0, "a negative coordinate wraps to 0.0 (clamp exercised)");
        kani::cover!(v.abs() > l * 1e30 && c[0] > 0.0, "a coordinate more than 1e30 periods away wraps into the interior");
    }
}


/// Period on the lattice: 7-bit significand (1.xxxxxx) times 2^e, |e| <= 30.
fn any_period() -> f64 {
    let m: u8 = kani::any();
    kani::assume(m < 64);
    let e: i8 = kani::any();
    kani::assume(e >= -30 && e <= 30);
    let exp = (1023_i64 + i64::from(e)) as u64;
    f64::from_bits((exp << 52) | (u64::from(m) << 46))
}

/// Coordinate on the lattice: ±0, or ±(12-bit significand 1.xxxxxxxxxxx) times 2^f, -1000 <= f <= 38.
fn any_value() -> f64 {
    let zero: bool = kani::any();
    let neg: bool = kani::any();
    let sign = if neg { 1_u64 << 63 } else { 0 };
    if zero {
        return f64::from_bits(sign);
    }
    let m: u16 = kani::any();
    kani::assume(m < 2048);
    let f: i16 = kani::any();
    kani::assume(f >= -1000 && f <= 38);
    let exp = (1023_i64 + i64::from(f)) as u64;
    f64::from_bits(sign | (exp << 52) | (u64::from(m) << 41))
}

/// The four wrapping clauses for one axis. `w2` is the wrap of `w`.
fn check_wrap(v: f64, l: f64, w: f64, w2: f64) {
    // (i) half-open box
    assert!(w >= 0.0 && w < l, "wrapped coordinate lies in the half-open box [0, L)");
    // (ii) identity on the box
    if v >= 0.0 && v < l {
        assert!(w == v, "a coordinate already in the box is unchanged");
    }
    // (iii) idempotence
    assert!(w2 == w, "wrapping is idempotent");
    // (iv) congruence modulo L up to rounding: distance on the circle R/LZ at most 8 ulp(L)
    let k = ((v - w) / l).round();
    let r = (-k).mul_add(l, v); // v - k*L, correctly rounded
    let d = (r - w).abs();
    let tol = l * f64::from_bits((1023_u64 - 49) << 52); // L * 2^-49
    assert!(d <= tol || (d - l).abs() <= tol, "wrapped coordinate is congruent to the input modulo the period");
    assert!(k.abs() <= 257.0);
}

/// Clauses (i) and (ii) only: cheap enough for the quick tier.
fn check_box(v: f64, l: f64, w: f64) {
    assert!(w >= 0.0 && w < l, "wrapped coordinate lies in the half-open box [0, L)");
    if v >= 0.0 && v < l {
        assert!(w == v, "a coordinate already in the box is unchanged");
    }
}

harness16! {
    // bound: wrap_coord<f64>, D=1, same lattice, clauses (i) box and (ii) identity only
    #[kani::unwind(4)]
    fn c16_wrap_coord_box_lattice_1d() {
        let l = any_period();
        let v = any_value();
        kani::assume(v.abs() <= 256.0 * l);
        let space = ToroidalSpace::<1>::new([l]);
        let Some(w) = space.wrap_coord::<f64>(0, v) else { panic!("finite input with a positive finite period was refused") };
        check_box(v, l, w);
        kani::cover!(v < 0.0 && w == 0.0, "a negative coordinate wraps to 0.0 (clamp exercised)");
        kani::cover!(v < 0.0 && w > 0.0, "a negative coordinate wraps into the interior");
        kani::cover!(v == l, "v == L reached");
        kani::cover!(v >= 0.0 && v < l, "v inside the box reached");
    }
}

harness16! {
    // bound: TopologicalSpace::canonicalize_point, D=2 (axis 0 symbolic), same lattice, clauses (i), (ii)
    #[kani::unwind(5)]
    fn c16_canonicalize_point_box_lattice_2d() {
        let l = any_period();
        let v = any_value();
        kani::assume(v.abs() <= 256.0 * l);
        let space = ToroidalSpace::<2>::new([l, 2.0]);
        let mut c = [v, -3.5];
        space.canonicalize_point(&mut c);
        check_box(v, l, c[0]);
        assert!(c[1] == 0.5);
        kani::cover!(v < 0.0 && c[0] == 0.0, "a negative coordinate wraps to 0.0 (clamp exercised)");
        kani::cover!(v > l, "v beyond the box reached");
    }
}

harness16! {
    // bound: ToroidalModel::canonicalize_point_in_place<f64> (hook), D=1, same lattice, clauses (i), (ii)
    #[kani::unwind(4)]
    fn c16_model_canonicalize_box_lattice_1d() {
        let l = any_period();
        let v = any_value();
        kani::assume(v.abs() <= 256.0 * l);
        let mut c = [v];
        let r = thooks::toroidal_canonicalize_point_in_place::<f64, 1>([l], &mut c);
        assert!(r.is_ok(), "finite input with a positive finite period is accepted");
        check_box(v, l, c[0]);
        kani::cover!(v < 0.0 && c[0] == 0.0, "a negative coordinate wraps to 0.0 (clamp exercised)");
        kani::cover!(v > l, "v beyond the box reached");
        core::mem::forget(r);
    }
}

/// f32 coordinate on the lattice: ±0, or ±(12-bit significand) times 2^f, -100 <= f <= 38.
fn any_value_f32() -> f32 {
    let zero: bool = kani::any();
    let neg: bool = kani::any();
    let m: u16 = kani::any();
    kani::assume(m < 2048);
    let f: i16 = kani::any();
    kani::assume(f >= -100 && f <= 38);
    let sign = if neg { 1_u32 << 31 } else { 0 };
    if zero { f32::from_bits(sign) } else {
        f32::from_bits(sign | (((127 + i32::from(f)) as u32) << 23) | (u32::from(m) << 12))
    }
}

harness16! {
    // bound: ToroidalModel::canonicalize_point_in_place<f32> (hook), D=1, f32 coordinate with 12-bit significand, clauses (i) and idempotence
    #[kani::unwind(4)]
    fn c16_model_canonicalize_lattice_1d_f32() {
        let l = any_period();
        let v = any_value_f32();
        kani::assume(f64::from(v).abs() <= 256.0 * l);
        let mut c = [v];
        let r = thooks::toroidal_canonicalize_point_in_place::<f32, 1>([l], &mut c);
        assert!(r.is_ok(), "finite input with a positive finite period is accepted");
        let wf = f64::from(c[0]);
        assert!(wf >= 0.0 && wf < l, "wrapped f32 coordinate lies in the half-open box [0, L)");
        let mut c2 = c;
        let r2 = thooks::toroidal_canonicalize_point_in_place::<f32, 1>([l], &mut c2);
        assert!(r2.is_ok() && c2[0] == c[0], "wrapping is idempotent");
        kani::cover!(v < 0.0 && c[0] == 0.0, "a negative coordinate wraps to 0.0");
        kani::cover!(v > 0.0 && wf < f64::from(v), "v beyond the box reached");
        core::mem::forget(r);
        core::mem::forget(r2);
    }
}

harness16l! {
    // bound: wrap_coord<f64>, D=1, lattice L (7-bit significand, |e|<=30) x v (12-bit significand, 2^-1000..2^38, ±0), |v|<=256 L
    #[kani::unwind(13)]
    fn c16_wrap_coord_lattice_1d() {
        let l = any_period();
        let v = any_value();
        kani::assume(v.abs() <= 256.0 * l);
        let space = ToroidalSpace::<1>::new([l]);
        let w = space.wrap_coord::<f64>(0, v);
        let Some(w) = w else { panic!("finite input with a positive finite period was refused") };
        let Some(w2) = space.wrap_coord::<f64>(0, w) else { panic!("re-wrap refused") };
        check_wrap(v, l, w, w2);
        kani::cover!(v < 0.0 && w == 0.0, "a negative coordinate wraps to 0.0 (clamp exercised)");
        kani::cover!(v < 0.0 && w > 0.0, "a negative coordinate wraps into the interior");
        kani::cover!(v == l, "v == L reached");
        kani::cover!(v > l && w > 0.0, "v beyond the box reached");
        kani::cover!(v >= 0.0 && v < l, "v inside the box reached");
        kani::cover!(v.to_bits() == (1_u64 << 63), "negative zero reached");
    }
}

harness16l! {
    // bound: wrap_coord<f32>, D=1, L lattice (7-bit significand, |e|<=30), v f32 with 12-bit significand, 2^-100..2^38, ±0, |v|<=256 L
    #[kani::unwind(13)]
    fn c16_wrap_coord_lattice_1d_f32() {
        let l = any_period();
        let zero: bool = kani::any();
        let neg: bool = kani::any();
        let m: u16 = kani::any();
        kani::assume(m < 2048);
        let f: i16 = kani::any();
        kani::assume(f >= -100 && f <= 38);
        let sign = if neg { 1_u32 << 31 } else { 0 };
        let v: f32 = if zero { f32::from_bits(sign) } else {
            f32::from_bits(sign | (((127 + i32::from(f)) as u32) << 23) | (u32::from(m) << 12))
        };
        kani::assume(f64::from(v).abs() <= 256.0 * l);
        let space = ToroidalSpace::<1>::new([l]);
        let w = space.wrap_coord::<f32>(0, v);
        let Some(w) = w else { panic!("finite input with a positive finite period was refused") };
        let wf = f64::from(w);
        assert!(wf >= 0.0 && wf < l, "wrapped f32 coordinate lies in the half-open box [0, L)");
        let Some(w2) = space.wrap_coord::<f32>(0, w) else { panic!("re-wrap refused") };
        assert!(w2 == w, "wrapping is idempotent");
        kani::cover!(v < 0.0 && w == 0.0, "a negative coordinate wraps to 0.0");
        kani::cover!(v > 0.0 && wf < f64::from(v), "v beyond the box reached");
    }
}

harness16l! {
    // bound: TopologicalSpace::canonicalize_point, D=2, axis 0 on the lattice, axis 1 fixed (3.5 mod 2); same lattice as wrap_coord
    #[kani::unwind(13)]
    fn c16_canonicalize_point_lattice_2d() {
        let l = any_period();
        let v = any_value();
        kani::assume(v.abs() <= 256.0 * l);
        let space = ToroidalSpace::<2>::new([l, 2.0]);
        let mut c = [v, -3.5];
        space.canonicalize_point(&mut c);
        let mut c2 = c;
        space.canonicalize_point(&mut c2);
        check_wrap(v, l, c[0], c2[0]);
        assert!(c[1] == 0.5 && c2[1] == 0.5);
        kani::cover!(v < 0.0 && c[0] == 0.0, "a negative coordinate wraps to 0.0 (clamp exercised)");
        kani::cover!(v > l, "v beyond the box reached");
    }
}

harness16l! {
    // bound: ToroidalModel::canonicalize_point_in_place<f64> (hook), D=1, same lattice
    #[kani::unwind(13)]
    fn c16_model_canonicalize_lattice_1d() {
        let l = any_period();
        let v = any_value();
        kani::assume(v.abs() <= 256.0 * l);
        let mut c = [v];
        let r = thooks::toroidal_canonicalize_point_in_place::<f64, 1>([l], &mut c);
        assert!(r.is_ok(), "finite input with a positive finite period is accepted");
        let mut c2 = c;
        let r2 = thooks::toroidal_canonicalize_point_in_place::<f64, 1>([l], &mut c2);
        assert!(r2.is_ok());
        check_wrap(v, l, c[0], c2[0]);
        kani::cover!(v < 0.0 && c[0] == 0.0, "a negative coordinate wraps to 0.0 (clamp exercised)");
        kani::cover!(v > l, "v beyond the box reached");
        core::mem::forget(r);
        core::mem::forget(r2);
    }
}

harness16l! {
    // bound: builder canonicalize_vertices (hook), one vertex, D=2, axis 0 on the lattice, axis 1 fixed; UUID and data preserved
    #[kani::unwind(13)]
    fn c16_builder_canonicalize_vertices_2d() {
        let l = any_period();
        let v = any_value();
        kani::assume(v.abs() <= 256.0 * l);
        let data: i32 = kani::any();
        let input = [Vertex::<f64, i32, 2>::new_with_uuid(Point::new([v, 7.25]), uuid_n(5), Some(data))];
        let out = bhooks::canonicalize_vertices_toroidal(&input, [l, 4.0]);
        let out = match out {
            Ok(out) => out,
            Err(e) => {
                core::mem::forget(e); // no drop glue of the nested error enum (symex does not finish with it)
                panic!("finite input with positive finite periods was refused")
            }
        };
        assert!(out.len() == 1);
        assert!(out[0].uuid().as_u128() == input[0].uuid().as_u128(), "UUID preserved");
        assert!(out[0].data == Some(data), "user data preserved");
        let w = out[0].point().coords()[0];
        assert!(out[0].point().coords()[1] == 3.25);
        check_box(v, l, w);
        kani::cover!(v < 0.0 && w == 0.0, "a negative coordinate wraps to 0.0 (clamp exercised)");
        kani::cover!(v > l, "v beyond the box reached");
        core::mem::forget(out);
    }
}

harness16! {
    // bound: wrap_coord over UNRESTRICTED doubles v, L and any axis: bad period or non-finite v => None; axis out of range => None; never a panic
    #[kani::unwind(4)]
    fn c16_wrap_coord_rejects_bad_input() {
        let l: f64 = kani::any();
        let v: f64 = kani::any();
        let axis: usize = kani::any();
        let bad = !(l.is_finite() && l > 0.0) || !v.is_finite() || axis >= 2;
        kani::assume(bad);
        let space = ToroidalSpace::<2>::new([l, l]);
        let w = space.wrap_coord::<f64>(axis, v);
        assert!(w.is_none(), "bad period / non-finite coordinate / bad axis is refused");
        kani::cover!(v.is_nan(), "NaN coordinate reached");
        kani::cover!(l == 0.0, "zero period reached");
        kani::cover!(l.is_infinite(), "infinite period reached");
        kani::cover!(axis >= 2 && l == 1.0 && v == 0.5, "bad axis reached");
    }
}

harness16! {
    // bound: ToroidalModel (hook) over UNRESTRICTED doubles, D=2: validate_configuration Ok iff all periods finite and > 0; canonicalize Err for bad period or non-finite coordinate; never a panic
    #[kani::unwind(5)]
    fn c16_model_rejects_bad_input() {
        let l0: f64 = kani::any();
        let l1: f64 = kani::any();
        let v0: f64 = kani::any();
        let v1: f64 = kani::any();
        let good_cfg = l0.is_finite() && l0 > 0.0 && l1.is_finite() && l1 > 0.0;
        let cfg = thooks::toroidal_validate_configuration::<2>([l0, l1]);
        assert!(cfg.is_ok() == good_cfg, "configuration accepted iff every period is finite and positive");
        let bad = !good_cfg || !v0.is_finite() || !v1.is_finite();
        kani::assume(bad);
        let mut c = [v0, v1];
        let r = thooks::toroidal_canonicalize_point_in_place::<f64, 2>([l0, l1], &mut c);
        // a non-finite coordinate on axis 1 may be reached only after axis 0 was wrapped: still an Err
        assert!(r.is_err(), "bad period or non-finite coordinate is refused");
        kani::cover!(good_cfg && v1.is_nan(), "NaN on the second axis reached");
        kani::cover!(!good_cfg, "bad configuration reached");
        core::mem::forget(r);
        core::mem::forget(cfg);
    }
}

harness16l! {
    // bound: builder canonicalize_vertices (hook), one vertex, D=1, near lattice; UUID and data preserved; clauses (i), (ii)
    #[kani::unwind(13)]
    fn c16_builder_canonicalize_vertices_1d() {
        let l = any_period();
        let v = any_value();
        kani::assume(v.abs() <= 256.0 * l);
        let data: i32 = kani::any();
        let input = [Vertex::<f64, i32, 1>::new_with_uuid(Point::new([v]), uuid_n(5), Some(data))];
        let out = bhooks::canonicalize_vertices_toroidal(&input, [l]);
        let out = match out {
            Ok(out) => out,
            Err(e) => {
                core::mem::forget(e); // no drop glue of the nested error enum
                panic!("finite input with positive finite periods was refused")
            }
        };
        assert!(out.len() == 1);
        assert!(out[0].uuid().as_u128() == input[0].uuid().as_u128(), "UUID preserved");
        assert!(out[0].data == Some(data), "user data preserved");
        let w = out[0].point().coords()[0];
        check_box(v, l, w);
        kani::cover!(v < 0.0 && w == 0.0, "a negative coordinate wraps to 0.0 (clamp exercised)");
        kani::cover!(v == l, "v == L reached");
        core::mem::forget(out);
    }
}

/// Narrow far lattice for the quick tier: v = ±(6-bit significand) * 2^f, 50 <= f <= 90, so that
/// |v / L| >= 2^47 .. 2^95 (straddling the 2^53 limit of double-precision quotients).
fn any_value_far_narrow() -> f64 {
    let neg: bool = kani::any();
    let sign = if neg { 1_u64 << 63 } else { 0 };
    let m: u8 = kani::any();
    kani::assume(m < 32);
    let f: u8 = kani::any();
    kani::assume(f >= 50 && f <= 90);
    let exp = 1023_u64 + u64::from(f);
    f64::from_bits(sign | (exp << 52) | (u64::from(m) << 47))
}

fn any_period_narrow() -> f64 {
    let m: u8 = kani::any();
    kani::assume(m < 64);
    let e: i8 = kani::any();
    kani::assume(e >= -2 && e <= 2);
    let exp = (1023_i64 + i64::from(e)) as u64;
    f64::from_bits((exp << 52) | (u64::from(m) << 46))
}

harness16l! {
    // bound: wrap_coord<f64>, D=1, NARROW far lattice: L = (7-bit significand)*2^e, |e|<=2; v = ±(6-bit significand)*2^f, 50<=f<=90: box, identity, congruence with the exact residue
    #[kani::unwind(13)]
    fn c16_wrap_coord_far_narrow_1d() {
        let l = any_period_narrow();
        let v = any_value_far_narrow();
        let space = ToroidalSpace::<1>::new([l]);
        let Some(w) = space.wrap_coord::<f64>(0, v) else { panic!("finite input with a positive finite period was refused") };
        check_wrap_far(v, l, w);
        kani::cover!(v < 0.0 && w > 0.0, "a far negative coordinate wraps into the interior");
        kani::cover!(v > 0.0 && w == 0.0, "a far exact multiple of the period reached");
    }
}
