//! Native witnesses of the findings listed in /verif/known_findings.json.
//!
//! Each test PASSES iff the listed defect is still present in the real (release) build of
//! /repo. The driver runs the matching witness when a harness fails on the listed assertion:
//! a passing witness confirms the solver's verdict natively (KNOWN-FINDING); a failing one
//! sends the driver down the full solver-trace replay instead.

#[cfg(test)]
mod tests {
    use delaunay::core::facet::facet_key_from_vertices;
    use delaunay::core::triangulation_data_structure::VertexKey;
    use delaunay::geometry::point::Point;
    use delaunay::geometry::traits::coordinate::Coordinate;
    use delaunay::geometry::util::circumsphere::circumcenter;
    use slotmap::KeyData;

    fn vkey(version: u32, idx: u32) -> VertexKey {
        VertexKey::from(KeyData::from_ffi((u64::from(version) << 32) | u64::from(idx)))
    }

    /// F2: the edges {i, j@v+256} and {i+1, (j-435)@v} have the same 64-bit facet key.
    #[test]
    fn f2_facet_key_collision_under_slot_reuse() {
        let (i, j, v) = (10_u32, 500_u32, 1_u32);
        let a = facet_key_from_vertices(&[vkey(v, i), vkey(v + 256, j)]);
        let b = facet_key_from_vertices(&[vkey(v, i + 1), vkey(v, j - 435)]);
        assert!(a == b, "F2 no longer reproduces: {a:#x} != {b:#x}");
    }

    /// F4: the circumcentre of three exactly collinear points is reported as Ok(garbage).
    #[test]
    fn f4_circumcenter_of_collinear_points_is_ok() {
        let pts: [Point<f64, 2>; 3] = [Point::new([0.0, 0.0]), Point::new([1.0, 1.0]), Point::new([3.0, 3.0])];
        let c = circumcenter(&pts);
        assert!(c.is_ok(), "F4 no longer reproduces: {c:?}");
        let c = c.unwrap();
        assert!(c.coords()[0].abs() > 1e15, "F4 changed shape: {c:?}");
    }
}
