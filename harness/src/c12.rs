//! C12 — predicates return the sign of the exact integer determinant on symbolic grids.
//!
//! Reference values are exact i64 cofactor expansions written here, never the library's path.
//! Oracle strength = property strength: a strict sign is demanded only where the exact
//! determinant is a non-zero integer; degenerate/boundary only where it is exactly 0; for an
//! exactly degenerate simplex the in-sphere answer may be `Err` or `BOUNDARY`.

use crate::util::*;
use delaunay::geometry::kernel::{FastKernel, Kernel, RobustKernel};
use delaunay::geometry::point::Point;
use delaunay::geometry::predicates::{insphere, insphere_lifted, simplex_orientation, InSphere, Orientation};
use delaunay::geometry::robust_predicates::{config_presets, robust_orientation};
use delaunay::geometry::traits::coordinate::Coordinate;
use delaunay::verif_hooks::robust as rhooks;

fn orient_to_i32(o: Orientation) -> i32 {
    match o {
        Orientation::NEGATIVE => -1,
        Orientation::DEGENERATE => 0,
        Orientation::POSITIVE => 1,
    }
}

fn insphere_to_i32(o: InSphere) -> i32 {
    match o {
        InSphere::OUTSIDE => -1,
        InSphere::BOUNDARY => 0,
        InSphere::INSIDE => 1,
    }
}

/// Exact orientation determinant |x y 1| (rows a, b, c).
fn exact_orient2(p: &[[i32; 2]; 3]) -> i32 {
    det3([[p[0][0], p[0][1], 1], [p[1][0], p[1][1], 1], [p[2][0], p[2][1], 1]])
}

/// Exact orientation determinant |x y z 1| (rows a, b, c, d).
fn exact_orient3(p: &[[i32; 3]; 4]) -> i32 {
    det4([
        [p[0][0], p[0][1], p[0][2], 1],
        [p[1][0], p[1][1], p[1][2], 1],
        [p[2][0], p[2][1], p[2][2], 1],
        [p[3][0], p[3][1], p[3][2], 1],
    ])
}

/// Exact in-circle determinant |x y x²+y² 1| (rows a, b, c, q).
fn exact_incircle(p: &[[i32; 2]; 3], q: [i32; 2]) -> i32 {
    let row = |v: [i32; 2]| [v[0], v[1], v[0] * v[0] + v[1] * v[1], 1];
    det4([row(p[0]), row(p[1]), row(p[2]), row(q)])
}

/// Symbolic grid point, optionally scaled by a dyadic factor 2^-k (exact).
fn grid_pt2(g: i32, scale: f64) -> ([i32; 2], Point<f64, 2>) {
    let x = any_grid(g);
    let y = any_grid(g);
    ([x, y], Point::new([f64::from(x) * scale, f64::from(y) * scale]))
}

fn fixed_pt2(x: i32, y: i32, scale: f64) -> ([i32; 2], Point<f64, 2>) {
    ([x, y], Point::new([f64::from(x) * scale, f64::from(y) * scale]))
}

fn grid_pt3(g: i32) -> ([i32; 3], Point<f64, 3>) {
    let x = any_grid(g);
    let y = any_grid(g);
    let z = any_grid(g);
    ([x, y, z], Point::new([f64::from(x), f64::from(y), f64::from(z)]))
}

// ---------------------------------------------------------------------------
// Orientation, D = 2
// ---------------------------------------------------------------------------

macro_rules! orient2d {
    ($name:ident, $g:literal, $call:expr) => {
        harness! {
            // bound: D=2 orientation, 3 points with integer coordinates in [-G, G], one query
            #[kani::unwind(5)]
            fn $name() {
                let (ia, pa) = grid_pt2($g, 1.0);
                let (ib, pb) = grid_pt2($g, 1.0);
                let (ic, pc) = grid_pt2($g, 1.0);
                let exact = sign(exact_orient2(&[ia, ib, ic]));
                let pts = [pa, pb, pc];
                let got: i32 = $call(&pts);
                assert!(got == exact, "orientation equals the sign of the exact determinant");
                kani::cover!(exact > 0, "positive orientation reached");
                kani::cover!(exact < 0, "negative orientation reached");
                kani::cover!(exact == 0, "degenerate reached");
            }
        }
    };
}

fn call_fast_orient2(pts: &[Point<f64, 2>; 3]) -> i32 {
    match <FastKernel<f64> as Kernel<2>>::orientation(&FastKernel::new(), pts) {
        Ok(v) => v,
        Err(_) => 99,
    }
}

fn call_robust_orient2(pts: &[Point<f64, 2>; 3]) -> i32 {
    match <RobustKernel<f64> as Kernel<2>>::orientation(&RobustKernel::new(), pts) {
        Ok(v) => v,
        Err(_) => 99,
    }
}

fn call_simplex_orient2(pts: &[Point<f64, 2>; 3]) -> i32 {
    match simplex_orientation(pts) {
        Ok(v) => orient_to_i32(v),
        Err(_) => 99,
    }
}

orient2d!(c12_orient2d_fast_g1, 1, call_fast_orient2);
orient2d!(c12_orient2d_robust_g1, 1, call_robust_orient2);
orient2d!(c12_orient2d_fast_g2, 2, call_fast_orient2);
orient2d!(c12_orient2d_robust_g2, 2, call_robust_orient2);
orient2d!(c12_orient2d_fast_g4, 4, call_fast_orient2);
orient2d!(c12_orient2d_robust_g4, 4, call_robust_orient2);

harness! {
    // bound: D=2 orientation on the dyadic grid 2^-k * [-2,2]^2, k symbolic in 0..=20
    #[kani::unwind(5)]
    fn c12_orient2d_fast_dyadic_g2() {
        let k: u8 = kani::any();
        kani::assume(k <= 20);
        let scale = f64::from_bits((1023_u64 - u64::from(k)) << 52); // 2^-k exactly
        let (ia, pa) = grid_pt2(2, scale);
        let (ib, pb) = grid_pt2(2, scale);
        let (ic, pc) = grid_pt2(2, scale);
        let exact = sign(exact_orient2(&[ia, ib, ic]));
        let got = call_fast_orient2(&[pa, pb, pc]);
        // documented dead band: tolerance = 1e-12*norm + 1e-15 (absolute). The exact determinant is
        // n * 4^-k with |n| >= 1; demand the strict sign only where it clears the band by 10x.
        let mag = scale * scale; // smallest non-zero |det| on this lattice
        if exact == 0 {
            assert!(got == 0, "exactly degenerate => DEGENERATE");
        } else if mag > 1e-10 {
            assert!(got == exact, "well-separated determinant => exact sign");
        } else {
            assert!(got == exact || got == 0, "inside the dead band: never the opposite sign");
        }
        kani::cover!(exact > 0 && k == 20, "positive at the smallest scale reached");
        kani::cover!(exact < 0 && k == 0, "negative at unit scale reached");
        kani::cover!(exact == 0, "degenerate reached");
    }
}

// ---------------------------------------------------------------------------
// Orientation, D = 3
// ---------------------------------------------------------------------------

macro_rules! orient3d {
    ($name:ident, $g:literal, $kernel:ty) => {
        harness! {
            // bound: D=3 orientation, 4 points with integer coordinates in [-G, G], one query
            #[kani::unwind(6)]
            fn $name() {
                let (ia, pa) = grid_pt3($g);
                let (ib, pb) = grid_pt3($g);
                let (ic, pc) = grid_pt3($g);
                let (id, pd) = grid_pt3($g);
                let exact = sign(exact_orient3(&[ia, ib, ic, id]));
                let pts = [pa, pb, pc, pd];
                let got = match <$kernel as Kernel<3>>::orientation(&<$kernel>::new(), &pts) {
                    Ok(v) => v,
                    Err(_) => 99,
                };
                assert!(got == exact, "orientation equals the sign of the exact determinant");
                kani::cover!(exact > 0, "positive orientation reached");
                kani::cover!(exact < 0, "negative orientation reached");
                kani::cover!(exact == 0, "degenerate reached");
            }
        }
    };
}

orient3d!(c12_orient3d_fast_g1, 1, FastKernel<f64>);
orient3d!(c12_orient3d_robust_g1, 1, RobustKernel<f64>);

/// D=3 orientation with the first vertex fixed at the origin and the second on a fixed
/// point: a cube of the G=1 query (cheaper, used by the quick tier).
macro_rules! orient3d_cube {
    ($name:ident, $g:literal, $kernel:ty, [$ax:literal, $ay:literal, $az:literal]) => {
        harness! {
            // bound: D=3 orientation, first vertex fixed, 3 symbolic points in [-G, G]^3
            #[kani::unwind(6)]
            fn $name() {
                let ia = [$ax as i32, $ay as i32, $az as i32];
                let pa = Point::new([$ax as f64, $ay as f64, $az as f64]);
                let (ib, pb) = grid_pt3($g);
                let (ic, pc) = grid_pt3($g);
                let (id, pd) = grid_pt3($g);
                let exact = sign(exact_orient3(&[ia, ib, ic, id]));
                let pts = [pa, pb, pc, pd];
                let got = match <$kernel as Kernel<3>>::orientation(&<$kernel>::new(), &pts) {
                    Ok(v) => v,
                    Err(_) => 99,
                };
                assert!(got == exact, "orientation equals the sign of the exact determinant");
                kani::cover!(exact > 0, "positive orientation reached");
                kani::cover!(exact < 0, "negative orientation reached");
                kani::cover!(exact == 0, "degenerate reached");
            }
        }
    };
}

orient3d_cube!(c12_orient3d_fast_g1_cube_origin, 1, FastKernel<f64>, [0, 0, 0]);
orient3d_cube!(c12_orient3d_fast_g1_cube_corner, 1, FastKernel<f64>, [1, -1, 1]);

// ---------------------------------------------------------------------------
// In-sphere, D = 2 — cubes: the first simplex vertex is fixed per instance
// ---------------------------------------------------------------------------

fn check_insphere2(exact_o: i32, exact_in: i32, got: Result<i32, ()>) {
    if exact_o == 0 {
        // exactly degenerate simplex: no strict answer
        assert!(matches!(got, Err(()) | Ok(0)), "degenerate simplex: Err or BOUNDARY, never a strict answer");
    } else {
        let want = sign(exact_in) * exact_o;
        assert!(got == Ok(want), "in-sphere equals the sign of the exact determinant");
    }
}

macro_rules! insphere2d_cube {
    ($name:ident, $g:literal, [$ax:literal, $ay:literal], $call:expr) => {
        harness! {
            // bound: D=2 in-sphere, first simplex vertex fixed, 2 vertices + query symbolic in [-G, G]^2
            #[kani::unwind(6)]
            fn $name() {
                let (ia, pa) = fixed_pt2($ax, $ay, 1.0);
                let (ib, pb) = grid_pt2($g, 1.0);
                let (ic, pc) = grid_pt2($g, 1.0);
                let (iq, pq) = grid_pt2($g, 1.0);
                let tri = [ia, ib, ic];
                let exact_o = sign(exact_orient2(&tri));
                let exact_in = exact_incircle(&tri, iq);
                let pts = [pa, pb, pc];
                let got: Result<i32, ()> = $call(&pts, pq);
                check_insphere2(exact_o, exact_in, got);
                kani::cover!(exact_o != 0 && sign(exact_in) * exact_o > 0, "inside reached");
                kani::cover!(exact_o != 0 && sign(exact_in) * exact_o < 0, "outside reached");
                kani::cover!(exact_o != 0 && exact_in == 0, "cocircular reached");
                kani::cover!(exact_o == 0, "degenerate simplex reached");
            }
        }
    };
}

fn call_insphere(pts: &[Point<f64, 2>; 3], q: Point<f64, 2>) -> Result<i32, ()> {
    insphere(pts, q).map(insphere_to_i32).map_err(|_| ())
}

fn call_fast_in_sphere(pts: &[Point<f64, 2>; 3], q: Point<f64, 2>) -> Result<i32, ()> {
    <FastKernel<f64> as Kernel<2>>::in_sphere(&FastKernel::new(), pts, &q).map_err(|_| ())
}

fn call_insphere_lifted(pts: &[Point<f64, 2>; 3], q: Point<f64, 2>) -> Result<i32, ()> {
    insphere_lifted(pts, q).map(insphere_to_i32).map_err(|_| ())
}

/// Determinant stage of the robust cascade. For an exactly degenerate simplex it answers
/// BOUNDARY (conservative), which `check_insphere2` accepts.
fn call_robust_stage1(pts: &[Point<f64, 2>; 3], q: Point<f64, 2>) -> Result<i32, ()> {
    let cfg = config_presets::general_triangulation::<f64>();
    rhooks::adaptive_tolerance_insphere(pts, &q, &cfg).map(insphere_to_i32).map_err(|_| ())
}

fn call_robust_stage3(pts: &[Point<f64, 2>; 3], q: Point<f64, 2>) -> Result<i32, ()> {
    let cfg = config_presets::general_triangulation::<f64>();
    rhooks::conditioned_insphere(pts, &q, &cfg).map(insphere_to_i32).map_err(|_| ())
}

// nine cubes of the G=1 grid, by first vertex
macro_rules! nine_cubes {
    ($call:expr, $n0:ident, $n1:ident, $n2:ident, $n3:ident, $n4:ident, $n5:ident, $n6:ident, $n7:ident, $n8:ident) => {
        insphere2d_cube!($n0, 1, [-1, -1], $call);
        insphere2d_cube!($n1, 1, [-1, 0], $call);
        insphere2d_cube!($n2, 1, [-1, 1], $call);
        insphere2d_cube!($n3, 1, [0, -1], $call);
        insphere2d_cube!($n4, 1, [0, 0], $call);
        insphere2d_cube!($n5, 1, [0, 1], $call);
        insphere2d_cube!($n6, 1, [1, -1], $call);
        insphere2d_cube!($n7, 1, [1, 0], $call);
        insphere2d_cube!($n8, 1, [1, 1], $call);
    };
}

nine_cubes!(call_fast_in_sphere,
    c12_insphere2d_fast_g1_c0, c12_insphere2d_fast_g1_c1, c12_insphere2d_fast_g1_c2,
    c12_insphere2d_fast_g1_c3, c12_insphere2d_fast_g1_c4, c12_insphere2d_fast_g1_c5,
    c12_insphere2d_fast_g1_c6, c12_insphere2d_fast_g1_c7, c12_insphere2d_fast_g1_c8);

nine_cubes!(call_insphere_lifted,
    c12_insphere2d_lifted_g1_c0, c12_insphere2d_lifted_g1_c1, c12_insphere2d_lifted_g1_c2,
    c12_insphere2d_lifted_g1_c3, c12_insphere2d_lifted_g1_c4, c12_insphere2d_lifted_g1_c5,
    c12_insphere2d_lifted_g1_c6, c12_insphere2d_lifted_g1_c7, c12_insphere2d_lifted_g1_c8);

nine_cubes!(call_robust_stage1,
    c12_insphere2d_robust1_g1_c0, c12_insphere2d_robust1_g1_c1, c12_insphere2d_robust1_g1_c2,
    c12_insphere2d_robust1_g1_c3, c12_insphere2d_robust1_g1_c4, c12_insphere2d_robust1_g1_c5,
    c12_insphere2d_robust1_g1_c6, c12_insphere2d_robust1_g1_c7, c12_insphere2d_robust1_g1_c8);

// a G=2 cube with two vertices fixed (triangle edge fixed): thorough tier
macro_rules! insphere2d_cube2 {
    ($name:ident, $g:literal, [$ax:literal, $ay:literal], [$bx:literal, $by:literal], $call:expr) => {
        harness! {
            // bound: D=2 in-sphere, two simplex vertices fixed, third vertex + query symbolic in [-G, G]^2
            #[kani::unwind(6)]
            fn $name() {
                let (ia, pa) = fixed_pt2($ax, $ay, 1.0);
                let (ib, pb) = fixed_pt2($bx, $by, 1.0);
                let (ic, pc) = grid_pt2($g, 1.0);
                let (iq, pq) = grid_pt2($g, 1.0);
                let tri = [ia, ib, ic];
                let exact_o = sign(exact_orient2(&tri));
                let exact_in = exact_incircle(&tri, iq);
                let pts = [pa, pb, pc];
                let got: Result<i32, ()> = $call(&pts, pq);
                check_insphere2(exact_o, exact_in, got);
                kani::cover!(exact_o != 0 && sign(exact_in) * exact_o > 0, "inside reached");
                kani::cover!(exact_o != 0 && sign(exact_in) * exact_o < 0, "outside reached");
                kani::cover!(exact_o != 0 && exact_in == 0, "cocircular reached");
                kani::cover!(exact_o == 0, "degenerate simplex reached");
            }
        }
    };
}

// quick tier: the G=1 grid with a simplex edge fixed (81 configurations per formulation)
insphere2d_cube2!(c12_insphere2d_fast_g1_edge, 1, [0, 0], [1, 0], call_fast_in_sphere);
insphere2d_cube2!(c12_insphere2d_lifted_g1_edge, 1, [0, 0], [0, 1], call_insphere_lifted);
insphere2d_cube2!(c12_insphere2d_robust1_g1_edge, 1, [0, 0], [1, 0], call_robust_stage1);
insphere2d_cube2!(c12_insphere2d_fast_g3_edge_a, 3, [0, 0], [1, 0], call_fast_in_sphere);
insphere2d_cube2!(c12_insphere2d_fast_g3_edge_b, 3, [-3, 2], [3, -1], call_fast_in_sphere);
insphere2d_cube2!(c12_insphere2d_lifted_g3_edge_a, 3, [0, 0], [1, 0], call_insphere_lifted);
insphere2d_cube2!(c12_insphere2d_robust1_g3_edge_a, 3, [0, 0], [1, 0], call_robust_stage1);
insphere2d_cube2!(c12_insphere2d_robust3_g3_edge_a, 3, [0, 0], [1, 0], call_robust_stage3);

// ---------------------------------------------------------------------------
// In-sphere on small-scale dyadic input: coordinates are integers times 2^-k. The exact
// determinant is n * 2^-4k with |n| >= 1; for k <= 10 that is at least 9e-13, more than 100x the
// documented tolerance 1e-15 + 1e-12 * |A|_inf (|A|_inf <= 8 * 2^-k + ...), so the strict sign
// is demanded.
// ---------------------------------------------------------------------------

macro_rules! insphere2d_dyadic_edge {
    ($name:ident, $call:expr) => {
        harness! {
            // bound: D=2 in-sphere on 2^-k * Z^2, k symbolic in 0..=10: simplex edge fixed at (0,0)-(1,0) (scaled), third vertex + query in [-2,2]^2 (scaled)
            #[kani::unwind(6)]
            fn $name() {
                let k: u8 = kani::any();
                kani::assume(k <= 10);
                let s = f64::from_bits((1023_u64 - u64::from(k)) << 52); // 2^-k exactly
                let (ia, pa) = fixed_pt2(0, 0, s);
                let (ib, pb) = fixed_pt2(1, 0, s);
                let (ic, pc) = grid_pt2(2, s);
                let (iq, pq) = grid_pt2(2, s);
                let tri = [ia, ib, ic];
                let exact_o = sign(exact_orient2(&tri));
                let exact_in = exact_incircle(&tri, iq);
                let pts = [pa, pb, pc];
                let got: Result<i32, ()> = $call(&pts, pq);
                // orientation determinant is m * 2^-2k >= 9.5e-7: far above the tolerance as well
                check_insphere2(exact_o, exact_in, got);
                kani::cover!(k == 10 && exact_o != 0 && sign(exact_in) * exact_o > 0, "inside at the smallest scale reached");
                kani::cover!(k == 10 && exact_o != 0 && sign(exact_in) * exact_o < 0, "outside at the smallest scale reached");
                kani::cover!(exact_o != 0 && exact_in == 0, "cocircular reached");
                kani::cover!(k == 0 && exact_o != 0, "unit scale reached");
            }
        }
    };
}

insphere2d_dyadic_edge!(c12_insphere2d_fast_dyadic_edge, call_fast_in_sphere);
insphere2d_dyadic_edge!(c12_insphere2d_lifted_dyadic_edge, call_insphere_lifted);
insphere2d_dyadic_edge!(c12_insphere2d_robust1_dyadic_edge, call_robust_stage1);
insphere2d_dyadic_edge!(c12_insphere2d_robust3_dyadic_edge, call_robust_stage3);

// ---------------------------------------------------------------------------
// T = f32 instantiation on LARGE exactly representable coordinates (|x| ~ 1e4): the matrix is
// evaluated in f64, so a determinant of magnitude >= 1e6 (six orders above the f64 rounding
// error of the LU, nine above the documented tolerance) must get its exact sign. (Finding F5:
// the lifted coordinate x^2+y^2 used to be computed in f32 and flipped the sign.)
// ---------------------------------------------------------------------------

fn exact_incircle_i64(p: &[[i64; 2]; 3], q: [i64; 2]) -> (i64, i64) {
    // translate by q: 3x3 determinant of [dx, dy, dx^2+dy^2], and the orientation
    let r = |v: [i64; 2]| {
        let (dx, dy) = (v[0] - q[0], v[1] - q[1]);
        [dx, dy, dx * dx + dy * dy]
    };
    let m = [r(p[0]), r(p[1]), r(p[2])];
    let det = m[0][0] * (m[1][1] * m[2][2] - m[1][2] * m[2][1]) - m[0][1] * (m[1][0] * m[2][2] - m[1][2] * m[2][0])
        + m[0][2] * (m[1][0] * m[2][1] - m[1][1] * m[2][0]);
    let o = (p[1][0] - p[0][0]) * (p[2][1] - p[0][1]) - (p[1][1] - p[0][1]) * (p[2][0] - p[0][0]);
    (det, o)
}

macro_rules! insphere2d_f32_large {
    ($name:ident, $call:expr) => {
        harness! {
            // bound: D=2 in-sphere, T=f32: triangle (9846,27),(11,9865),(-9858,1) and query (1,-9839), the query and the third vertex each moved by any offset in [-3,3]^2 (2401 configurations, all exactly representable in f32); strict exact sign demanded where |det| >= 1e6
            #[kani::unwind(6)]
            fn $name() {
                let e = [any_grid(3), any_grid(3), any_grid(3), any_grid(3)];
                let ip: [[i64; 2]; 3] = [[9846, 27], [11, 9865], [-9858 + i64::from(e[0]), 1 + i64::from(e[1])]];
                let iq: [i64; 2] = [1 + i64::from(e[2]), -9839 + i64::from(e[3])];
                let (det, o) = exact_incircle_i64(&ip, iq);
                kani::assume(o > 0);
                let pts: [Point<f32, 2>; 3] = [
                    Point::new([9846.0, 27.0]),
                    Point::new([11.0, 9865.0]),
                    Point::new([(-9858 + e[0]) as f32, (1 + e[1]) as f32]),
                ];
                let q: Point<f32, 2> = Point::new([(1 + e[2]) as f32, (-9839 + e[3]) as f32]);
                let got: Result<i32, ()> = $call(&pts, q);
                if det >= 1_000_000 {
                    assert!(got == Ok(1), "in-sphere equals the sign of the exact determinant (f32 input, well separated)");
                } else if det <= -1_000_000 {
                    assert!(got == Ok(-1), "in-sphere equals the sign of the exact determinant (f32 input, well separated)");
                }
                kani::cover!(det >= 1_000_000, "well-separated inside reached");
                kani::cover!(det <= -1_000_000, "well-separated outside reached");
                kani::cover!(det > -1_000_000 && det < 1_000_000, "near-cocircular (no demand) reached");
            }
        }
    };
}

fn call_fast_in_sphere_f32(pts: &[Point<f32, 2>; 3], q: Point<f32, 2>) -> Result<i32, ()> {
    <FastKernel<f32> as Kernel<2>>::in_sphere(&FastKernel::new(), pts, &q).map_err(|_| ())
}

fn call_insphere_lifted_f32(pts: &[Point<f32, 2>; 3], q: Point<f32, 2>) -> Result<i32, ()> {
    insphere_lifted(pts, q).map(insphere_to_i32).map_err(|_| ())
}

fn call_robust_stage1_f32(pts: &[Point<f32, 2>; 3], q: Point<f32, 2>) -> Result<i32, ()> {
    let cfg = config_presets::general_triangulation::<f32>();
    rhooks::adaptive_tolerance_insphere(pts, &q, &cfg).map(insphere_to_i32).map_err(|_| ())
}

insphere2d_f32_large!(c12_insphere2d_fast_f32_large, call_fast_in_sphere_f32);
insphere2d_f32_large!(c12_insphere2d_lifted_f32_large, call_insphere_lifted_f32);
insphere2d_f32_large!(c12_insphere2d_robust1_f32_large, call_robust_stage1_f32);

// ---------------------------------------------------------------------------
// Orientation D=3 on ANISOTROPIC dyadic lattices: x and y scaled by 2^a, z by 2^b. All matrix
// entries are small integers times powers of two, so the exact determinant is n * 2^(2a+b).
// The strict sign is demanded where it clears the documented tolerance
// 1e-15 + 1e-12 * |A|_inf (|A|_inf <= 3 * 2^a) by more than 100x: a + b >= -30 and 2a + b >= -40.
// (Catches singularity thresholds on individual LU pivots, which isotropic grids never reach.)
// ---------------------------------------------------------------------------

macro_rules! orient3d_aniso {
    ($name:ident, $kernel:ty) => {
        harness! {
            // bound: D=3 orientation, first vertex at the origin, three points of {-1,0,1}^3 scaled by (2^a, 2^a, 2^b), a in 0..=12, b in -44..=0 symbolic
            #[kani::unwind(6)]
            fn $name() {
                let a: u8 = kani::any();
                let nb: u8 = kani::any();
                kani::assume(a <= 12 && nb <= 44);
                let sa = f64::from_bits((1023_u64 + u64::from(a)) << 52);
                let sb = f64::from_bits((1023_u64 - u64::from(nb)) << 52);
                let mut ip = [[0_i32; 3]; 4];
                let mut pts = [Point::new([0.0, 0.0, 0.0]); 4];
                let mut i = 1;
                while i < 4 {
                    let c = [any_grid(1), any_grid(1), any_grid(1)];
                    ip[i] = c;
                    pts[i] = Point::new([f64::from(c[0]) * sa, f64::from(c[1]) * sa, f64::from(c[2]) * sb]);
                    i += 1;
                }
                let exact = sign(exact_orient3(&ip));
                let got = match <$kernel as Kernel<3>>::orientation(&<$kernel>::new(), &pts) {
                    Ok(v) => v,
                    Err(_) => 99,
                };
                let (ai, bi) = (i32::from(a), -i32::from(nb));
                if exact == 0 {
                    assert!(got == 0, "exactly degenerate => DEGENERATE");
                } else if ai + bi >= -30 && 2 * ai + bi >= -40 {
                    assert!(got == exact, "determinant well above the documented tolerance => exact sign");
                } else {
                    assert!(got == exact || got == 0, "inside the dead band: never the opposite sign");
                }
                kani::cover!(exact > 0 && nb >= 41 && ai + bi >= -30, "tiny z-scale with a strict answer demanded reached");
                kani::cover!(exact < 0 && a == 0 && nb == 0, "isotropic unit scale reached");
                kani::cover!(exact == 0, "degenerate reached");
            }
        }
    };
}

orient3d_aniso!(c12_orient3d_fast_aniso_origin, FastKernel<f64>);
orient3d_aniso!(c12_orient3d_robust_aniso_origin, RobustKernel<f64>);
