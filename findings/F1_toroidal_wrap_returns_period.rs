use delaunay::prelude::triangulation::*;
use delaunay::core::builder::DelaunayTriangulationBuilder;
use delaunay::topology::spaces::ToroidalSpace;
fn main() {
    let sp = ToroidalSpace::<2>::new([1.0, 1.0]);
    let w = sp.wrap_coord::<f64>(0, -1e-20).unwrap();
    println!("wrap_coord(-1e-20) = {w:?}  in [0,1): {}   wrap again = {:?}", w >= 0.0 && w < 1.0, sp.wrap_coord::<f64>(0, w));
    let vertices = vec![vertex!([-1e-20, 0.5]), vertex!([0.25, 0.25]), vertex!([0.75, 0.3]), vertex!([0.5, 0.9])];
    let dt = DelaunayTriangulationBuilder::new(&vertices).toroidal([1.0, 1.0]).build::<()>();
    match dt {
        Ok(dt) => for (_, v) in dt.vertices() { let c = v.point().coords(); println!("vertex {:?} in box: {}", c, c.iter().all(|x| *x >= 0.0 && *x < 1.0)); },
        Err(e) => println!("build error: {e}"),
    }
}
