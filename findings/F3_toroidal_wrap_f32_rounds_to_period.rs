use delaunay::topology::spaces::ToroidalSpace;
use delaunay::prelude::triangulation::*;
fn main() {
    let space = ToroidalSpace::<1>::new([1.0]);
    for v in [-1e-8_f32, 0.99999999_f32, 1.9999999_f32, 2.9999998_f32, -3e-9] {
        let w = space.wrap_coord::<f32>(0, v);
        println!("wrap_coord::<f32>({v:e}) = {w:?}  >= period: {:?}", w.map(|w| f64::from(w) >= 1.0));
    }
    let space3 = ToroidalSpace::<1>::new([0.3]);
    for v in [-1e-9_f32, 0.6_f32, 0.29999998_f32, 0.9_f32] {
        let w = space3.wrap_coord::<f32>(0, v);
        println!("L=0.3 wrap_coord::<f32>({v:e}) = {w:?}  >= period: {:?}", w.map(|w| f64::from(w) >= 0.3));
    }
    // through the public builder with f32 vertices
    let vs: Vec<Vertex<f32, (), 2>> = vec![
        vertex!([-1e-8_f32, 0.5]), vertex!([0.2_f32, 0.1]), vertex!([0.7_f32, 0.2]), vertex!([0.4_f32, 0.8]), vertex!([0.6_f32, 0.6]),
    ];
    let r = DelaunayTriangulationBuilder::from_vertices(&vs).toroidal([1.0, 1.0]).build::<()>();
    match r {
        Ok(dt) => for (_, v) in dt.vertices() { println!("vertex {:?}", v.point().coords()); },
        Err(e) => println!("build error: {e}"),
    }
}
