use delaunay::geometry::kernel::{FastKernel, Kernel, RobustKernel};
use delaunay::geometry::point::Point;
use delaunay::geometry::predicates::{insphere, insphere_lifted, InSphere};
use delaunay::geometry::traits::coordinate::Coordinate;

fn exact_incircle(p: [[i128; 2]; 3], q: [i128; 2]) -> i128 {
    // sign(det |x y x^2+y^2 1|) * orientation
    let row = |v: [i128; 2]| [v[0], v[1], v[0] * v[0] + v[1] * v[1]];
    let m = [row([p[0][0]-q[0], p[0][1]-q[1]]), row([p[1][0]-q[0], p[1][1]-q[1]]), row([p[2][0]-q[0], p[2][1]-q[1]])];
    let det = m[0][0]*(m[1][1]*m[2][2]-m[1][2]*m[2][1]) - m[0][1]*(m[1][0]*m[2][2]-m[1][2]*m[2][0]) + m[0][2]*(m[1][0]*m[2][1]-m[1][1]*m[2][0]);
    let o = (p[1][0]-p[0][0])*(p[2][1]-p[0][1]) - (p[1][1]-p[0][1])*(p[2][0]-p[0][0]);
    det.signum() * o.signum()
}

fn main() {
    let mut bad = 0; let mut total = 0;
    let mut s: u64 = 12345;
    let mut rnd = |m: i64| { s = s.wrapping_mul(6364136223846793005).wrapping_add(1442695040888963407); ((s >> 33) as i64) % m };
    for _ in 0..200000 {
        let base = 4000 + rnd(6000);
        let p: [[i128; 2]; 3] = [[(base + rnd(50)) as i128, rnd(50) as i128], [rnd(50) as i128, (base + rnd(50)) as i128], [-(base + rnd(50)) as i128, rnd(50) as i128]];
        let q: [i128; 2] = [rnd(50) as i128, -(base + rnd(60) - 30) as i128];
        let exact = exact_incircle(p, q);
        if exact == 0 { continue; }
        let pts32: Vec<Point<f32, 2>> = p.iter().map(|c| Point::new([c[0] as f32, c[1] as f32])).collect();
        let q32 = Point::new([q[0] as f32, q[1] as f32]);
        let pts64: Vec<Point<f64, 2>> = p.iter().map(|c| Point::new([c[0] as f64, c[1] as f64])).collect();
        let q64 = Point::new([q[0] as f64, q[1] as f64]);
        let r32 = insphere(&pts32, q32).unwrap();
        let r64 = insphere(&pts64, q64).unwrap();
        let to_i = |r: InSphere| match r { InSphere::INSIDE => 1, InSphere::OUTSIDE => -1, InSphere::BOUNDARY => 0 };
        total += 1;
        assert!(to_i(r64) as i128 == exact, "f64 wrong?! {p:?} {q:?}");
        if (to_i(r32) as i128) == -exact {
            bad += 1;
            if bad <= 3 {
                let k32 = <FastKernel<f32> as Kernel<2>>::in_sphere(&FastKernel::new(), &pts32, &q32).unwrap();
                let r32r = <RobustKernel<f32> as Kernel<2>>::in_sphere(&RobustKernel::new(), &pts32, &q32).unwrap();
                let l32 = insphere_lifted(&pts32, q32).map(to_i);
                println!("OPPOSITE strict answer for f32: tri={p:?} q={q:?} exact={exact} insphere<f32>={r32:?} fast<f32>={k32} robust<f32>={r32r} lifted<f32>={l32:?} insphere<f64>={r64:?}");
            }
        }
    }
    println!("{bad} of {total} exactly-representable f32 configurations get the OPPOSITE strict in-sphere answer");
}
