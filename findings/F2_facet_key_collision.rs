use delaunay::prelude::triangulation::*;
use delaunay::core::facet::facet_key_from_vertices;
use slotmap::Key;
use std::collections::HashMap;

fn main() {
    // deterministic scattered points (LCG), 2-D
    let mut s: u64 = 0x1234_5678_9abc_def1;
    let mut rnd = || { s = s.wrapping_mul(6364136223846793005).wrapping_add(1442695040888963407); ((s >> 11) as f64) / ((1u64 << 53) as f64) };
    let n = 520usize;
    let mut pts: Vec<[f64; 2]> = (0..n).map(|_| [rnd(), rnd()]).collect();
    // indices (insertion sequence numbers) that must be adjacent: (ia, ib) and (ia+1, ib-435)
    let (ia, ib) = (10usize, 500usize);
    pts[ib] = [pts[ia][0] + 1e-4, pts[ia][1] + 0.7e-4];
    pts[ib - 435] = [pts[ia + 1][0] - 0.9e-4, pts[ia + 1][1] + 1e-4];
    let mut dt: DelaunayTriangulation<_, (), (), 2> = DelaunayTriangulation::empty();
    let mut keys = Vec::new();
    for p in &pts { keys.push(dt.insert(vertex!(*p)).expect("insert")); }
    let raw = |k: VertexKey| k.data().as_ffi();
    println!("key[ia]={:#x} key[ia+1]={:#x} key[ib]={:#x} key[ib-435]={:#x}", raw(keys[ia]), raw(keys[ia+1]), raw(keys[ib]), raw(keys[ib-435]));
    assert!(dt.validate().is_ok(), "initial triangulation must validate");
    // cycle the slot of vertex ib
    let mut kb = keys[ib];
    for c in 0..128 {
        let v = *dt.tds().get_vertex_by_key(kb).expect("vertex present");
        let removed = dt.remove_vertex(&v).expect("remove");
        assert!(removed > 0);
        match dt.insert(vertex!(pts[ib])) {
            Ok(k) => kb = k,
            Err(e) => {
                println!("cycle {c}: re-insert of a valid point refused: {e}");
                println!("  state after refusal validates: {:?}", dt.validate().map_err(|e| e.to_string()));
                // same insertion with the safety net relaxed, so that the state is committed
                dt.set_topology_guarantee(TopologyGuarantee::Pseudomanifold);
                dt.set_validation_policy(ValidationPolicy::Never);
                dt.set_delaunay_repair_policy(DelaunayRepairPolicy::Never);
                match dt.insert(vertex!(pts[ib])) {
                    Ok(k) => { kb = k; println!("  committed with validation off, key={:#x}", k.data().as_ffi()); }
                    Err(e2) => { println!("  still refused with validation off: {e2}"); return; }
                }
            }
        }
    }
    println!("after cycling: key[ib]={:#x}", raw(kb));
    let (a, b, a2, b2) = (keys[ia], kb, keys[ia + 1], keys[ib - 435]);
    let h1 = facet_key_from_vertices(&[a, b]);
    let h2 = facet_key_from_vertices(&[a2, b2]);
    println!("facet key {{A,B}}={h1:#x}  {{A',B'}}={h2:#x}  equal={}", h1 == h2);
    // independent facet incidence by vertex tuple
    let mut inc: HashMap<(u64, u64), usize> = HashMap::new();
    for (_, cell) in dt.cells() {
        let vs = cell.vertices();
        for i in 0..3 { let (x, y) = (raw(vs[(i + 1) % 3]), raw(vs[(i + 2) % 3])); *inc.entry((x.min(y), x.max(y))).or_insert(0) += 1; }
    }
    let maxdeg = inc.values().copied().max().unwrap();
    let has = |x: VertexKey, y: VertexKey| inc.contains_key(&(raw(x).min(raw(y)), raw(x).max(raw(y))));
    println!("independent: max facet degree={maxdeg}, edge AB present={}, edge A'B' present={}", has(a, b), has(a2, b2));
    println!("tds.is_valid() = {:?}", dt.tds().is_valid().map_err(|e| e.to_string()));
    println!("dt.validate()  = {:?}", dt.validate().map_err(|e| e.to_string()));
    let r = dt.insert(vertex!([0.5, 0.5]));
    println!("subsequent insert = {:?}", r.map_err(|e| e.to_string()));
}
