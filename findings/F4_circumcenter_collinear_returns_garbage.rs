use delaunay::geometry::point::Point;
use delaunay::geometry::traits::coordinate::Coordinate;
use delaunay::geometry::util::circumsphere::{circumcenter, circumradius};
use delaunay::geometry::util::measures::simplex_volume;
use delaunay::geometry::quality::radius_ratio;
fn main() {
    let tris: [[[f64; 2]; 3]; 4] = [
        [[-2.0, -2.0], [-1.0, -1.0], [1.0, 1.0]],
        [[0.0, 0.0], [1.0, 1.0], [3.0, 3.0]],
        [[0.0, 0.0], [1.0, 2.0], [3.0, 6.0]],
        [[0.0, 0.0], [1.0, 0.0], [2.0, 0.0]],
    ];
    for t in tris {
        let pts: Vec<Point<f64, 2>> = t.iter().map(|c| Point::new(*c)).collect();
        println!("collinear {:?}: circumcenter = {:?}", t, circumcenter(&pts).map(|c| *c.coords()));
        println!("    circumradius = {:?}  volume = {:?}", circumradius(&pts), simplex_volume(&pts).map_err(|e| e.to_string()));
    }
    let tet: Vec<Point<f64, 3>> = [[0.0, 0.0, 0.0], [1.0, 1.0, 0.0], [3.0, 3.0, 0.0], [0.0, 0.0, 1.0]].iter().map(|c| Point::new(*c)).collect();
    println!("coplanar/collinear tetra: circumcenter = {:?}", circumcenter(&tet).map(|c| *c.coords()));
}
