#!/usr/bin/env python3
"""Turns the output of `./check seedtest` (one or more log files) into seeded/RESULTS.md."""
import json, os, re, sys

ROOT = os.path.dirname(os.path.dirname(os.path.abspath(__file__)))
rows = {}
for path in sys.argv[1:]:
    for line in open(path, errors="replace"):
        m = re.match(r"seedtest (\S+) \[(\S+)\] tier=(\S+) only=(\S+): (.*?) in (\d+)s", line)
        if m:
            sid, prop, tier, only, verdict, secs = m.groups()
            rows.setdefault(sid, []).append((tier, only, verdict, int(secs)))
out = ["# Seeded changes: what the checks report\n",
       "Produced by `driver/seed_results.py` from `./check seedtest --tier thorough` (each patch applied to a scratch copy of",
       "/repo; /repo itself untouched). CAUGHT = exit 1 with a VIOLATION line whose counterexample failed natively in the replay.\n",
       "| seed | property | summary | needs | run | verdict | wall |", "|---|---|---|---|---|---|---|"]
for sid in sorted(os.listdir(os.path.join(ROOT, "seeded"))):
    d = os.path.join(ROOT, "seeded", sid)
    if not os.path.isdir(d):
        continue
    meta = json.load(open(os.path.join(d, "meta.json")))
    summ = str(meta.get("summary", "")).replace("|", "/").replace("\n", " ")[:160]
    needs = str(meta.get("needs_to_manifest", "")).replace("|", "/").replace("\n", " ")[:160]
    rs = rows.get(sid) or [("-", "-", "not run yet", 0)]
    for tier, only, verdict, secs in rs:
        out.append(f"| {sid} | {meta['property']} | {summ} | {needs} | {tier}" + (f" --only {only}" if only not in ("None", "-") else "") + f" | {verdict} | {secs}s |")
open(os.path.join(ROOT, "seeded", "RESULTS.md"), "w").write("\n".join(out) + "\n")
print("\n".join(out[-40:]))
