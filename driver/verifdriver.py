"""Runner for the Kani/CBMC proof harnesses in /verif/harness (see DESIGN.md §2, §5)."""
from __future__ import annotations

import concurrent.futures
import fcntl
import json
import os
import random
import re
import shlex
import shutil
import signal
import subprocess
import sys
import threading
import time

import catalog

ROOT = os.path.dirname(os.path.dirname(os.path.abspath(__file__)))
REPO = "/repo"
NLANES = 14
REQUIRED_STUBS = [
    "alloc :: fmt :: format",
    "std :: env :: var_os",
    "tracing_core :: callsite :: DefaultCallsite :: register",
    "tracing_core :: event :: Event :: dispatch",
    "tracing :: __macro_support :: __is_enabled",
    "delaunay :: core :: util :: uuid :: make_uuid",
]
TRUSTED_BASE = [
    "rustc front end (Kani 0.68 pinned nightly)",
    "Kani MIR->goto lowering and its intrinsic models (fma, floor, round, trunc, casts: cross-checked by the conformance harness)",
    "CBMC 6.11 IEEE-754 bit-blasting and unwinding assertions",
    "CaDiCaL SAT solver",
    "environment stubs listed under 'stubs'",
]
PRINT_LOCK = threading.Lock()


def log(msg: str) -> None:
    with PRINT_LOCK:
        print(msg, flush=True)


class Ctx:
    """Where the code under analysis and the scratch space live."""

    def __init__(self, repo: str = REPO, harness_dir: str | None = None, target_root: str | None = None):
        self.repo = repo
        self.harness_dir = harness_dir or os.path.join(ROOT, "harness")
        self.target_root = target_root or os.path.join(ROOT, ".target")
        os.makedirs(self.target_root, exist_ok=True)

    def lane_dir(self, k: int) -> str:
        return os.path.join(self.target_root, f"lane{k}")


class Lane:
    """Exclusive use of one cargo target directory (flock, shared between processes)."""

    def __init__(self, ctx: Ctx):
        self.ctx = ctx
        self.fd = None
        self.k = None

    def __enter__(self):
        while True:
            order = list(range(NLANES))
            for k in order:
                path = os.path.join(self.ctx.target_root, f"lane{k}.lock")
                fd = os.open(path, os.O_CREAT | os.O_RDWR, 0o644)
                try:
                    fcntl.flock(fd, fcntl.LOCK_EX | fcntl.LOCK_NB)
                except OSError:
                    os.close(fd)
                    continue
                self.fd, self.k = fd, k
                return self.ctx.lane_dir(k)
            time.sleep(0.5)

    def __exit__(self, *exc):
        fcntl.flock(self.fd, fcntl.LOCK_UN)
        os.close(self.fd)


def base_env() -> dict:
    env = dict(os.environ)
    env["CARGO_NET_OFFLINE"] = "true"
    env.pop("RUSTFLAGS", None)
    env.pop("CARGO_TARGET_DIR", None)
    return env


def run_cmd(cmd: str, cwd: str, timeout_s: float, mem_gb: float | None = None, env: dict | None = None):
    """Run a shell command in its own process group; returns (rc|None on timeout, output, wall)."""
    if mem_gb:
        cmd = f"ulimit -v {int(mem_gb * 1024 * 1024)}; {cmd}"
    t0 = time.time()
    proc = subprocess.Popen(
        ["bash", "-c", cmd], cwd=cwd, env=env or base_env(), stdout=subprocess.PIPE, stderr=subprocess.STDOUT,
        start_new_session=True, text=True, errors="replace",
    )
    try:
        out, _ = proc.communicate(timeout=timeout_s)
        rc = proc.returncode
    except subprocess.TimeoutExpired:
        try:
            os.killpg(proc.pid, signal.SIGKILL)
        except ProcessLookupError:
            pass
        out, _ = proc.communicate()
        rc = None
    return rc, out, time.time() - t0


# ---------------------------------------------------------------------------
# Parsing Kani / CBMC output
# ---------------------------------------------------------------------------

CHECK_RE = re.compile(r"^Check (\d+): (.+)\n\t - Status: (\S+)\n\t - Description: \"(.*)\"\n\t - Location: (.*)$", re.M)


def parse_kani(out: str) -> dict:
    res: dict = {}
    res["stubs"] = [m.strip() for m in re.findall(r"^\s*- Stub: (.*?) ->", out, re.M)]
    res["successful"] = "VERIFICATION:- SUCCESSFUL" in out
    res["failed"] = "VERIFICATION:- FAILED" in out
    res["cbmc_error"] = bool(re.search(r"Status: ERROR|CBMC failed|std::bad_alloc|out of memory|Killed", out))
    m = re.search(r"\*\* (\d+) of (\d+) failed(?: \((.*?)\))?", out)
    res["checks_failed"] = int(m.group(1)) if m else None
    res["checks_total"] = int(m.group(2)) if m else None
    m = re.search(r"\*\* (\d+) of (\d+) cover properties satisfied", out)
    res["covers_satisfied"] = int(m.group(1)) if m else 0
    res["covers_total"] = int(m.group(2)) if m else 0
    vc = re.findall(r"^(\d+) variables, (\d+) clauses", out, re.M)
    res["sat_variables"] = int(vc[-1][0]) if vc else 0
    res["sat_clauses"] = int(vc[-1][1]) if vc else 0
    dps = re.findall(r"^Runtime decision procedure: ([0-9.eE+-]+)s", out, re.M)
    res["solver_queries"] = len(dps)
    res["solver_s"] = round(sum(float(x) for x in dps), 3)
    m = re.search(r"^Runtime Symex: ([0-9.eE+-]+)s", out, re.M)
    res["symex_s"] = float(m.group(1)) if m else None
    m = re.search(r"^Verification Time: ([0-9.]+)s", out, re.M)
    res["verification_s"] = float(m.group(1)) if m else None
    failures, covers = [], []
    for num, name, status, desc, loc in CHECK_RE.findall(out):
        if ".cover." in name:
            covers.append({"description": desc, "status": status})
        elif status in ("FAILURE", "UNDETERMINED"):
            failures.append({"check": name, "status": status, "description": desc, "location": loc})
    for f in failures:
        f["description"] = f["description"].strip('"')
    # CBMC's C library models (fma & co.) call `feraiseexcept`, whose built-in body asserts
    # "floating-point exception" when e.g. fma(inf, 0, x) raises FE_INVALID. Rust floating-point
    # arithmetic never traps, so this check has no Rust-level meaning: it is dropped (and reported).
    artefacts = [f for f in failures if f["check"].startswith("feraiseexcept.") and "floating-point exception" in f["description"]]
    failures = [f for f in failures if f not in artefacts]
    res["ignored_cbmc_artefacts"] = len(artefacts)
    res["failures"] = failures
    res["covers"] = covers
    m = re.search(r"Failed Checks: (.*)", out)
    res["compile_error"] = bool(re.search(r"^error(\[E\d+\])?:", out, re.M)) and not res["successful"] and not res["failed"]
    return res


def extract_playback_test(out: str, failing: list[str] | None = None) -> str | None:
    """Kani prints one unit test per failing check AND per satisfied cover. Pick a test that belongs
    to a failing check (never a cover), preferring one whose description is in `failing`."""
    blocks = re.findall(r"Concrete playback unit test for `[^`]*`:\n```\n(.*?)\n```", out, re.S)
    cands = []
    for b in blocks:
        m = re.search(r"/// Check for `(\w+)`: \"+(.*?)\"+\s*$", b, re.M)
        kind, desc = (m.group(1), m.group(2)) if m else ("?", "")
        if kind == "cover":
            continue
        cands.append((0 if failing and any(desc and desc in f or f in desc for f in failing) else 1, b))
    if not cands:
        return None
    cands.sort(key=lambda c: c[0])
    return cands[0][1]


# ---------------------------------------------------------------------------
# Running one harness
# ---------------------------------------------------------------------------

def kani_cmd(lane: str, h: dict, extra: str = "") -> str:
    args = " ".join(h.get("kani_args", []))
    return (
        f"cargo kani --target-dir {lane} -Z stubbing --harness {h['module']}::{h['name']} --exact {args} {extra}"
    ).strip()


def run_harness(ctx: Ctx, h: dict, logdir: str) -> dict:
    timeout_s = h["timeout"]
    with Lane(ctx) as lane:
        cmd = kani_cmd(lane, h)
        rc, out, wall = run_cmd(cmd, ctx.harness_dir, timeout_s + 240, h.get("mem_gb", 10))
    os.makedirs(logdir, exist_ok=True)
    with open(os.path.join(logdir, h["name"] + ".log"), "w") as f:
        f.write(out)
    r = parse_kani(out)
    r.update({"name": h["name"], "cmd": cmd, "wall_s": round(wall, 2), "rc": rc})
    missing = [s for s in REQUIRED_STUBS if s not in r["stubs"]]
    if rc is None:
        r["verdict"] = "timeout"
    elif r["compile_error"]:
        r["verdict"] = "compile_error"
    elif (r["successful"] and not r["failed"]) or (r["failed"] and not r["failures"] and r["ignored_cbmc_artefacts"]
                                                  and r["checks_failed"] == r["ignored_cbmc_artefacts"] and not r["cbmc_error"]):
        if r["failed"]:
            r["detail"] = f"(ignored {r['ignored_cbmc_artefacts']} CBMC feraiseexcept artefact(s))"
        if missing:
            r["verdict"] = "missing_stub"
            r["detail"] = f"stubs not applied: {missing}"
        elif r["covers_satisfied"] != r["covers_total"] or r["covers_total"] < h.get("min_covers", 1):
            r["verdict"] = "vacuous"
            r["detail"] = f"covers {r['covers_satisfied']}/{r['covers_total']}"
        else:
            r["verdict"] = "pass"
    elif r["failed"] and r["failures"]:
        r["verdict"] = "failed"
    else:
        r["verdict"] = "error"
    return r


# ---------------------------------------------------------------------------
# Native replay of a solver model
# ---------------------------------------------------------------------------

def playback(ctx: Ctx, h: dict, logdir: str, prop: str, failed_run: dict | None = None) -> dict:
    """Ask Kani for concrete values, turn them into a unit test and run it natively
    (no stubs, real std) in dev and release profiles."""
    res = {"reproduced": False, "path": None, "detail": ""}
    # Ask CBMC for the trace of ONE failing property only (`--cbmc-args --property <name>`): generating
    # traces for every failing check and every satisfied cover costs 4-10x the plain run and made
    # kani-driver grow to > 40 GB on the in-sphere cubes (OOM-killed); one property takes about as
    # long as the plain run.
    fails = (failed_run or {}).get("failures") or []
    own = [f for f in fails if re.match(r"c\d\d::", f["check"]) and ".assertion." in f["check"]]
    target = (own or fails or [None])[0]
    extra = "-Z concrete-playback --concrete-playback=print"
    if target:
        extra += " -Z unstable-options --cbmc-args --property " + shlex.quote(target["check"])
    with Lane(ctx) as lane:
        cmd = kani_cmd(lane, h, extra)
        rc, out, wall = run_cmd(cmd, ctx.harness_dir, 2 * h["timeout"] + 900, None)
    with open(os.path.join(logdir, h["name"] + ".playback-gen.log"), "w") as f:
        f.write(out)
    test = extract_playback_test(out, [f["description"] for f in parse_kani(out)["failures"]])
    if not test:
        res["detail"] = "kani produced no concrete playback test"
        return res
    m = re.search(r"fn (kani_concrete_playback_\w+)", test)
    test_name = m.group(1)
    rdir = os.path.join(ROOT, "replays", prop)
    os.makedirs(rdir, exist_ok=True)
    rpath = os.path.join(rdir, h["name"] + ".rs")
    failing = "; ".join(sorted({f["description"] for f in parse_kani(out)["failures"]}))[:400]
    with open(rpath, "w") as f:
        f.write(f"// property: {prop}\n// harness: {h['module']}::{h['name']}\n// module: {h['module']}\n")
        f.write(f"// failing checks: {failing}\n// replay: ./check replay {rpath}\n")
        f.write(test + "\n")
    res["path"] = rpath
    ok, detail = run_replay_file(ctx, rpath, logdir)
    res["reproduced"] = ok
    res["detail"] = detail
    return res


def run_replay_file(ctx: Ctx, rpath: str, logdir: str | None = None) -> tuple[bool, str]:
    """Returns (reproduced natively?, detail)."""
    text = open(rpath).read()
    module = re.search(r"^// module: (\w+)", text, re.M).group(1)
    test_name = re.search(r"fn (kani_concrete_playback_\w+)", text).group(1)
    body = "\n".join(l for l in text.splitlines() if not l.startswith("// "))
    with Lane(ctx) as lane:
        scratch = os.path.join(lane, "replay-crate")
        shutil.rmtree(scratch, ignore_errors=True)
        shutil.copytree(ctx.harness_dir, scratch, ignore=shutil.ignore_patterns("target"))
        with open(os.path.join(scratch, "src", module + ".rs"), "a") as f:
            f.write("\n" + body + "\n")
        details = []
        reproduced = False
        for profile in ("", "--release"):
            env = base_env()
            if profile:
                # `cargo kani playback` has no --release: emulate the release profile through cargo's
                # profile environment overrides (optimised, no debug assertions, wrapping overflow).
                env["CARGO_TARGET_DIR"] = os.path.join(lane, "playback-target-rel")
                env["CARGO_PROFILE_DEV_OPT_LEVEL"] = "3"
                env["CARGO_PROFILE_DEV_DEBUG_ASSERTIONS"] = "false"
                env["CARGO_PROFILE_DEV_OVERFLOW_CHECKS"] = "false"
            else:
                env["CARGO_TARGET_DIR"] = os.path.join(lane, "playback-target")
            cmd = f"cargo kani playback -Z concrete-playback -- {test_name}"
            rc, out, wall = run_cmd(cmd, scratch, 1500, None, env)
            if logdir:
                with open(os.path.join(logdir, os.path.basename(rpath) + f".replay{profile or '--dev'}.log"), "w") as f:
                    f.write(out)
            ran = re.search(r"test result: (\w+)\. (\d+) passed; (\d+) failed", out)
            prof = profile or "--dev"
            if rc is None:
                details.append(f"{prof}: no termination within 1500 s (treated as reproduced: hang)")
                reproduced = True
            elif ran and int(ran.group(3)) > 0:
                pm = re.search(r"panicked at (.*?):\n(.*)", out)
                details.append(f"{prof}: FAILED natively" + (f" ({pm.group(2).strip()[:160]})" if pm else ""))
                reproduced = True
            elif ran and int(ran.group(2)) > 0:
                details.append(f"{prof}: passed natively (model does not reproduce)")
            else:
                details.append(f"{prof}: could not run replay (rc={rc})")
        shutil.rmtree(scratch, ignore_errors=True)
    return reproduced, "; ".join(details)


# ---------------------------------------------------------------------------
# Known findings
# ---------------------------------------------------------------------------

def run_witness(ctx: Ctx, test_name: str) -> tuple[bool, str]:
    """Runs one native #[test] of the harness crate (host toolchain, release, against ctx.repo).
    The witness tests are written so that PASS means: the listed defect reproduces."""
    env = base_env()
    env["CARGO_TARGET_DIR"] = os.path.join(ctx.target_root, "native")
    rc, out, wall = run_cmd(f"cargo test --offline --release --lib -- --exact witness::tests::{test_name}", ctx.harness_dir, 1800, None, env)
    m = re.search(r"test result: (\w+)\. (\d+) passed; (\d+) failed", out)
    if rc == 0 and m and int(m.group(2)) == 1 and int(m.group(3)) == 0:
        return True, f"native witness test witness::tests::{test_name} passed in {wall:.0f}s (defect reproduces in the release build)"
    return False, f"rc={rc} " + (m.group(0) if m else out[-200:].replace("\n", " "))


def load_known() -> list[dict]:
    p = os.path.join(ROOT, "known_findings.json")
    if not os.path.exists(p):
        return []
    return [e for e in json.load(open(p))["findings"] if e.get("status") == "known"]


def match_known(known: list[dict], prop: str, r: dict) -> dict | None:
    for e in known:
        names = e["match"].get("harnesses") or [e["match"]["harness"]]
        if e["property"] != prop or r["name"] not in names:
            continue
        descs = [f["description"] for f in r["failures"]]
        # every failing check of this harness must be the listed one
        if descs and all(e["match"]["assertion"] in d for d in descs):
            return e
    return None


# ---------------------------------------------------------------------------
# Property check
# ---------------------------------------------------------------------------

def select(prop: str, tier: str, only: str | None) -> list[dict]:
    hs = [h for h in catalog.HARNESSES if prop in h["props"]]
    if tier == "quick":
        hs = [h for h in hs if h["tier"] == "quick"]
    if only:
        hs = [h for h in hs if only in h["name"]]
    return hs


def check_property(prop: str, tier: str, only: str | None, jobs: int, ctx: Ctx | None = None, write_evidence: bool = True) -> int:
    ctx = ctx or Ctx()
    t0 = time.time()
    seed = int(os.environ.get("VERIF_SEED", "0") or 0)
    hs = select(prop, tier, only)
    if not hs:
        log(f"no harnesses for {prop} ({tier})")
        return 3
    # longest first for packing; the seed only rotates ties / lane assignment
    rnd = random.Random(seed)
    rnd.shuffle(hs)
    hs.sort(key=lambda h: -h["timeout"])
    logdir = os.path.join(ctx.target_root, "logs", f"{prop}-{tier}" + (f"-{only}" if only else ""))
    shutil.rmtree(logdir, ignore_errors=True)
    os.makedirs(logdir, exist_ok=True)
    known = load_known()
    results: list[dict] = []
    log(f"[{prop}] tier={tier} harnesses={len(hs)} jobs={jobs} repo={ctx.repo}")
    with concurrent.futures.ThreadPoolExecutor(max_workers=jobs) as ex:
        futs = {ex.submit(run_harness, ctx, h, logdir): h for h in hs}
        for fut in concurrent.futures.as_completed(futs):
            h = futs[fut]
            try:
                r = fut.result()
            except Exception as e:  # infrastructure failure
                r = {"name": h["name"], "verdict": "error", "detail": repr(e), "failures": [], "covers": [], "stubs": [],
                     "solver_queries": 0, "solver_s": 0, "wall_s": 0, "cmd": ""}
            r["bound"] = h["bound"]
            r["functions"] = h["functions"]
            results.append(r)
            log(f"[{prop}] {r['name']}: {r['verdict']} wall={r.get('wall_s')}s solver={r.get('solver_s')}s "
                f"covers={r.get('covers_satisfied')}/{r.get('covers_total')} {r.get('detail', '')}")
    by_name = {h["name"]: h for h in hs}
    violations, known_lines, inconclusive, infra, unreplayed = [], [], [], [], []
    for r in sorted(results, key=lambda r: by_name[r["name"]]["timeout"]):
        if r["verdict"] == "pass":
            continue
        if r["verdict"] == "failed":
            h = by_name[r["name"]]
            descs = sorted({f["description"] for f in r["failures"]})
            e = match_known(known, prop, r)
            if e and e.get("native_witness"):
                # A listed finding: confirm natively with its stored witness test (a plain #[test] in the
                # harness crate that passes iff the defect is still present in the real build) instead of
                # the much slower solver trace. If the witness does not confirm, fall through to the
                # full playback so that nothing is suppressed on hearsay.
                ok, detail = run_witness(ctx, e["native_witness"])
                if ok:
                    log(f"[{prop}] {r['name']}: solver found a model for: {descs[:4]} -- listed finding, native witness {e['native_witness']} confirms")
                    r["replay"] = {"reproduced": True, "path": os.path.join(ROOT, "harness/src/witness.rs") + "::" + e["native_witness"], "detail": detail}
                    known_lines.append((e, r))
                    continue
                log(f"[{prop}] {r['name']}: native witness {e['native_witness']} did NOT confirm ({detail}); full replay")
            if violations:
                # one natively confirmed violation already decides the exit code; trace generation for
                # every further failing harness would cost 4-10x its run time each
                log(f"[{prop}] {r['name']}: solver also found a model for: {descs[:4]} -- not replayed (a violation is already confirmed)")
                r["replay"] = {"reproduced": False, "path": None, "detail": "not replayed: another violation of this property was already confirmed natively"}
                unreplayed.append(r)
                continue
            log(f"[{prop}] {r['name']}: solver found a model for: {descs[:4]} -- replaying natively")
            pb = playback(ctx, h, logdir, prop, r)
            r["replay"] = pb
            if pb["reproduced"]:
                if e:
                    known_lines.append((e, r))
                else:
                    violations.append(r)
            else:
                inconclusive.append(r)
        else:
            infra.append(r)
    for e, r in known_lines:
        log(f"KNOWN-FINDING: property={prop} {e['what']} (harness {r['name']}; replay {r['replay']['path']}: {r['replay']['detail']})")
    for r in violations:
        log(f"VIOLATION property={prop} replay={r['replay']['path']}")
        log(f"  harness {r['name']}: {sorted({f['description'] for f in r['failures']})[:4]}; native: {r['replay']['detail']}")
    for r in unreplayed:
        log(f"ALSO-FAILING property={prop} harness={r['name']}: {sorted({f['description'] for f in r['failures']})[:3]} (not replayed)")
    for r in inconclusive:
        log(f"INCONCLUSIVE property={prop} harness={r['name']}: solver model does not reproduce natively ({r['replay']['detail']})")
    for r in infra:
        log(f"NOT-DECIDED property={prop} harness={r['name']}: {r['verdict']} {r.get('detail', '')} (log: {logdir}/{r['name']}.log)")
    wall = time.time() - t0
    if write_evidence:
        write_evidence_file(prop, tier, seed, results, violations, known_lines, inconclusive, infra, wall, ctx)
    if violations:
        return 1
    if inconclusive:
        return 2
    if infra:
        return 3
    log(f"[{prop}] OK: {len(results) - len(known_lines)} harnesses discharged"
        + (f", {len(known_lines)} known finding(s)" if known_lines else "") + f" in {wall:.0f}s")
    return 0


def write_evidence_file(prop, tier, seed, results, violations, known_lines, inconclusive, infra, wall, ctx):
    passed = [r for r in results if r["verdict"] == "pass"]
    samples = []
    for r in sorted(results, key=lambda r: r["name"]):
        samples.append({
            "harness": r["name"], "verdict": r["verdict"], "bound": r["bound"], "functions_encoded": r["functions"],
            "covers_satisfied": [c["description"] for c in r.get("covers", []) if c["status"] == "SATISFIED"],
            "cbmc_checks": r.get("checks_total"), "sat_variables": r.get("sat_variables"), "sat_clauses": r.get("sat_clauses"),
            "solver_queries": r.get("solver_queries"), "solver_s": r.get("solver_s"), "symex_s": r.get("symex_s"),
            "wall_s": r.get("wall_s"),
            **({"replay": r["replay"]} if "replay" in r else {}),
            **({"failing_checks": sorted({f["description"] for f in r["failures"]})[:6]} if r.get("failures") else {}),
        })
    functions = sorted({f for r in results for f in r["functions"]})
    stubs = sorted({s for r in results for s in r.get("stubs", [])})
    explanation = (
        "Bounded model checking of the compiled library code (Kani 0.68 -> CBMC 6.11 -> CaDiCaL), regenerated from /repo's "
        "working tree on this run. Each harness makes its inputs symbolic, asserts the property, and the SAT solver decides "
        "it for every value inside the bound given per harness; unwinding assertions are on, every cover point must be "
        "satisfiable (vacuity guard). Nothing outside the per-harness bounds is claimed. "
        + " | ".join(f"{r['name']}: {r['bound']}" for r in sorted(results, key=lambda r: r['name']))
    )
    ev = {
        "property_id": prop,
        "tier": tier,
        "seed": seed,
        "level": "other",
        "coverage": {
            "explanation": explanation,
            "evaluations": sum(r.get("solver_queries", 0) for r in results),
            "distinct_nontrivial": len([r for r in passed if r.get("covers_total", 0) and r["covers_satisfied"] == r["covers_total"]]),
            "rule": "evaluations = SAT/decision-procedure queries discharged by CBMC in this run; distinct_nontrivial = harnesses "
                    "(distinct function x instantiation x bound) that verified successfully AND had every kani::cover! point satisfied",
            "obligations": len(results),
            "discharged": len(passed),
            "checker_cmd": results[0]["cmd"] if results else "",
            "trusted_base": TRUSTED_BASE,
            "functions_encoded": functions,
            "stubs": stubs,
            "solver_time_s": round(sum(r.get("solver_s", 0) or 0 for r in results), 2),
            "cbmc_checks_total": sum(r.get("checks_total") or 0 for r in results),
            "known_findings_reported": [e["what"] for e, _ in known_lines],
            "not_decided": [r["name"] for r in infra + inconclusive],
            "samples": samples,
            "repo_head": git_head(ctx.repo),
            "repo_dirty": git_dirty(ctx.repo),
        },
        "assumptions": [
            "claims hold only inside each harness's stated bound (grid size, bit depth, list length, dimension)",
            "environment stubs: format! -> empty string, env vars unset, tracing disabled, make_uuid counter-based",
            "Kani models the dev profile (debug assertions, overflow checks on)",
        ] + catalog.PROP_ASSUMPTIONS.get(prop, []),
        "wall_s": round(wall, 2),
        "violations": len(violations),
    }
    os.makedirs(os.path.join(ROOT, "evidence"), exist_ok=True)
    with open(os.path.join(ROOT, "evidence", f"{prop}.json"), "w") as f:
        json.dump(ev, f, indent=1)


def git_head(repo: str) -> str:
    try:
        return subprocess.run(["git", "-C", repo, "rev-parse", "--short", "HEAD"], capture_output=True, text=True).stdout.strip()
    except Exception:
        return "?"


def git_dirty(repo: str) -> bool:
    try:
        return bool(subprocess.run(["git", "-C", repo, "status", "--porcelain", "--untracked-files=no"], capture_output=True, text=True).stdout.strip())
    except Exception:
        return False


# ---------------------------------------------------------------------------
# setup / replay / list / selftest
# ---------------------------------------------------------------------------

def setup(nlanes: int) -> int:
    ctx = Ctx()
    t0 = time.time()
    # 1. native differential test of the rem_euclid reference model + conformance table
    rc, out, wall = run_cmd("cargo test --offline --release --lib -- --test-threads=4 2>&1 | tail -15", ctx.harness_dir, 3000,
                            None, {**base_env(), "CARGO_TARGET_DIR": os.path.join(ctx.target_root, "native")})
    print(out)
    if rc != 0 or "test result: ok" not in out:
        print("setup: native model tests failed")
        return 1
    # 2. pre-build the lanes (dependencies + delaunay for Kani)
    def build(k):
        lane = ctx.lane_dir(k)
        path = os.path.join(ctx.target_root, f"lane{k}.lock")
        fd = os.open(path, os.O_CREAT | os.O_RDWR, 0o644)
        fcntl.flock(fd, fcntl.LOCK_EX)
        try:
            return run_cmd(f"cargo kani --target-dir {lane} -Z stubbing --only-codegen --harness conformance::conf_int_ops --exact",
                           ctx.harness_dir, 1800)
        finally:
            fcntl.flock(fd, fcntl.LOCK_UN)
            os.close(fd)
    with concurrent.futures.ThreadPoolExecutor(max_workers=nlanes) as ex:
        for k, (rc, out, wall) in zip(range(nlanes), ex.map(build, range(nlanes))):
            print(f"lane{k}: rc={rc} {wall:.0f}s")
            if rc != 0:
                print(out[-3000:])
                return 1
    print(f"setup done in {time.time() - t0:.0f}s")
    return 0


def main(argv: list[str]) -> int:
    if not argv:
        print(__doc__)
        return 3
    cmd = argv[0]
    args = argv[1:]

    def opt(name, default=None):
        if name in args:
            i = args.index(name)
            v = args[i + 1]
            del args[i:i + 2]
            return v
        return default

    tier = opt("--tier", os.environ.get("VERIF_TIER", "quick")) or "quick"
    only = opt("--only")
    jobs = int(opt("--jobs", os.environ.get("VERIF_JOBS", "12")))
    if cmd == "setup":
        return setup(int(opt("--lanes", "12")))
    if cmd == "list":
        for h in catalog.HARNESSES:
            if not args or args[0] in h["props"]:
                print(f"{','.join(h['props']):8} {h['tier']:8} {h['timeout']:5}s {h['name']}: {h['bound']}")
        return 0
    if cmd == "replay":
        ok, detail = run_replay_file(Ctx(), os.path.abspath(args[0]))
        print(("REPRODUCED " if ok else "NOT-REPRODUCED ") + detail)
        return 1 if ok else 0
    if cmd == "selftest":
        import selftest
        return selftest.main(only, tier, jobs)
    if cmd == "seedtest":
        import selftest
        return selftest.seedtest(only, tier, jobs)
    if cmd in catalog.PROPERTIES:
        return check_property(cmd, tier, only, jobs, write_evidence=(only is None))
    print(f"unknown command or property: {cmd}")
    return 3
