"""Catalogue of proof harnesses: property, tier, budget, bound sentence, functions encoded.

tier "quick": run in both tiers; tier "thorough": thorough only.
timeout: seconds, >= 3x the time measured on the unchanged tree.
"""

PROPERTIES = ["C05", "C09", "C12", "C14", "C16", "C17", "C18", "C19"]

HARNESSES: list[dict] = []

PROP_ASSUMPTIONS: dict[str, list[str]] = {}


def h(props, module, name, tier, timeout, bound, functions, kani_args=(), mem_gb=10, min_covers=1):
    HARNESSES.append({
        "props": props if isinstance(props, list) else [props],
        "module": module, "name": name, "tier": tier, "timeout": timeout, "bound": bound,
        "functions": functions, "kani_args": list(kani_args), "mem_gb": mem_gb, "min_covers": min_covers,
    })


# For harnesses over UNRESTRICTED floats CBMC's NaN/inf *production* checks (legal in Rust) are off;
# Rust's own integer-overflow panics stay because they are in the MIR.
NOFLOATCHK = ["--no-overflow-checks"]

ALL_FLOAT_PROPS = ["C09", "C12", "C14", "C16", "C17", "C18", "C19"]

# ---------------------------------------------------------------------------
# Intrinsic-model conformance (runs first in every property that reaches float kernels)
# ---------------------------------------------------------------------------
h(ALL_FLOAT_PROPS, "conformance", "conf_float_ops", "quick", 300,
  "Kani's models of mul_add, /, *, +, -, round, floor, trunc, abs, max, min and float->int casts agree with the natively "
  "validated table (36 operand tuples at rounding boundaries, operands pinned symbolically)",
  ["f64::mul_add", "f64::round", "f64::floor", "f64::trunc", "f64 as i64/u32/u64"])

# ---------------------------------------------------------------------------
# C17
# ---------------------------------------------------------------------------
HIL = ["core::util::hilbert::hilbert_indices_prequantized", "core::util::hilbert::hilbert_index_from_quantized"]
for (d, bits, tier, to) in [(2, 1, "quick", 300), (3, 1, "quick", 300), (4, 1, "quick", 300), (5, 1, "quick", 300), (3, 2, "quick", 300), (1, 4, "quick", 300), (1, 16, "thorough", 600), (2, 2, "quick", 300), (2, 4, "quick", 300),
                            (2, 8, "thorough", 900), (2, 10, "thorough", 3000), (3, 3, "quick", 300), (3, 5, "thorough", 900),
                            (4, 2, "quick", 300), (4, 3, "thorough", 900), (5, 2, "quick", 400), (5, 3, "thorough", 900)]:
    h("C17", "c17", f"c17_hilbert_curve_{d}d_b{bits}", tier, to,
      f"Hilbert index D={d}, bits={bits}: for every pair of cells of the (2^{bits})^{d} grid: index < 2^(D*bits), "
      f"equal index => equal cell (bijective by counting), index(b)=index(a)+1 => L1 distance 1", HIL)
for (d, to, tier) in [(2, 400, "quick"), (3, 400, "quick"), (4, 400, "thorough"), (5, 400, "thorough")]:
    h("C17", "c17", f"c17_morton_injective_{d}d", tier, to,
      f"Morton code D={d}: injective on its WHOLE domain (every pair of {d}-tuples of {64 // d}-bit coordinates)",
      ["core::delaunay_triangulation::morton_code", "core::delaunay_triangulation::morton_bits_per_coord"])
h(["C17", "C19"], "c17", "c17_hilbert_quantize_range_2d", "quick", 300,
  "hilbert_quantize D=2 over UNRESTRICTED f64 coordinates and bounds (NaN, inf, subnormal) and any u32 bits: Ok with every "
  "component <= 2^bits-1 iff bits in 1..=31, Err otherwise, no panic",
  ["core::util::hilbert::hilbert_quantize"], kani_args=NOFLOATCHK)
h(["C17", "C19"], "c17", "c17_hilbert_index_errs_5d", "quick", 300,
  "hilbert_index D=5, bits in {0} U (24, 2^32): Ok iff bits in 1..=31 and 5*bits <= 128",
  ["core::util::hilbert::hilbert_index"])
ORD = ["core::delaunay_triangulation::order_vertices_by_strategy"]
h("C17", "c17", "c17_order_input_perm_n3", "quick", 300,
  "Input ordering: n=3 vertices, D=2, coordinates in {-2..2} U {-0.0}, duplicates allowed: output is a permutation "
  "(UUID, coordinate bits and data of every vertex preserved)", ORD)
h("C17", "c17", "c17_order_lex_perm_n3", "quick", 600,
  "Lexicographic ordering: n=3, D=2, coordinates in {-2..2} U {-0.0}, duplicates allowed: output is a permutation",
  ORD + ["core::delaunay_triangulation::order_vertices_lexicographic", "Vertex::partial_cmp", "Vertex::hash"])
h("C17", "c17", "c17_order_morton_perm_n3", "thorough", 1500,
  "Morton ordering: n=3, D=2, coordinates in {-2..2} U {-0.0}, duplicates allowed: output is a permutation",
  ORD + ["core::delaunay_triangulation::order_vertices_morton", "core::delaunay_triangulation::morton_code"])
h("C17", "c17", "c17_order_hilbert_perm_n3", "thorough", 1800,
  "Hilbert ordering: n=3, D=2, coordinates in {-2..2} U {-0.0}, duplicates allowed: output is a permutation",
  ORD + ["core::delaunay_triangulation::order_vertices_hilbert", "core::util::hilbert::hilbert_quantize"] + HIL)
h("C17", "c17", "c17_dedup_exact_n3", "quick", 600,
  "dedup_vertices_exact: n=3, D=2, coordinates in {-1,-0.0,+0.0,1}: survivors are input vertices, pairwise distinct coordinates, "
  "every input coordinate tuple keeps a representative", ["core::util::deduplication::dedup_vertices_exact"])
h("C17", "c17", "c17_dedup_exact_sorted_n3", "quick", 900,
  "dedup_vertices_exact_sorted (batch path): n=3, D=2, coordinates in {-1,-0.0,+0.0,1}: same laws",
  ["core::delaunay_triangulation::dedup_vertices_exact_sorted", "core::util::deduplication::coords_equal_exact"])
for eps, tier in [("125", "thorough"), ("150", "thorough")]:
    h("C17", "c17", f"c17_dedup_eps_n3_e{eps}", tier, 1200,
      f"dedup_vertices_epsilon: n=3, D=2, coordinates in {{-1,0,1}}, eps={int(eps) / 100}: survivors subset of input, no two "
      "survivors within eps, every dropped vertex within eps of a survivor", ["core::util::deduplication::dedup_vertices_epsilon"])
    h("C17", "c17", f"c17_dedup_eps_n2_n3_e{eps}", "thorough", 1200,
      f"dedup_vertices_epsilon_n2 (batch path): n=3, D=2, coordinates in {{-1,0,1}}, eps={int(eps) / 100}: same laws",
      ["core::delaunay_triangulation::dedup_vertices_epsilon_n2", "core::util::deduplication::coords_within_epsilon"])
h(["C17", "C19"], "c17", "c17_reorder_rejects_bad_indices_n4", "quick", 600,
  "reorder_vertices_for_simplex: n=4, D=2, ANY three usize indices: Some iff distinct and in range, no panic",
  ["core::delaunay_triangulation::reorder_vertices_for_simplex"])

# ---------------------------------------------------------------------------
# C12
# ---------------------------------------------------------------------------
LU3 = ["geometry::matrix::determinant (la-stack 3x3 LU)", "geometry::matrix::adaptive_tolerance"]
LU4 = ["geometry::matrix::determinant (la-stack 4x4 LU)", "geometry::matrix::adaptive_tolerance"]
for kern, fn in [("fast", ["geometry::kernel::FastKernel::orientation", "geometry::predicates::simplex_orientation"]),
                 ("robust", ["geometry::kernel::RobustKernel::orientation", "geometry::robust_predicates::robust_orientation"])]:
    for g, tier, to in [(1, "quick", 600), (2, "quick", 900), (4, "thorough", 3000)]:
        h("C12", "c12", f"c12_orient2d_{kern}_g{g}", tier, to,
          f"D=2 orientation ({kern} kernel): all {(2 * g + 1) ** 6} triples of points with integer coordinates in [-{g},{g}]: "
          "result = sign of the exact integer determinant (POSITIVE/NEGATIVE/DEGENERATE)", fn + LU3)
    h("C12", "c12", f"c12_orient3d_{kern}_g1", "thorough", 4000,
      f"D=3 orientation ({kern} kernel): all 3^12 = 531441 quadruples of points in {{-1,0,1}}^3: result = sign of the exact determinant",
      fn + LU4)
h("C12", "c12", "c12_orient2d_fast_dyadic_g2", "thorough", 3000,
  "D=2 orientation (fast kernel) on the dyadic grids 2^-k*[-2,2]^2, k symbolic in 0..=20: exact sign where |det| >= 1e-10, "
  "DEGENERATE where det = 0 exactly, never the opposite sign inside the documented dead band", LU3)
for nm, pt in [("origin", "(0,0,0)"), ("corner", "(1,-1,1)")]:
    h("C12", "c12", f"c12_orient3d_fast_g1_cube_{nm}", "thorough", 1500,
      f"D=3 orientation (fast kernel): first vertex fixed at {pt}, all 3^9 = 19683 triples of further points in {{-1,0,1}}^3", LU4)
for form, edge in [("fast", "(0,0)-(1,0)"), ("lifted", "(0,0)-(0,1)"), ("robust1", "(0,0)-(1,0)")]:
    h("C12", "c12", f"c12_insphere2d_{form}_g1_edge", "quick" if form != "robust1" else "thorough", 1200,
      f"D=2 in-sphere ({form}): simplex edge fixed at {edge}, third vertex and query range over all 3^4 = 81 points of "
      "{-1,0,1}^2 x {-1,0,1}^2: exact sign; degenerate => Err or BOUNDARY", LU4 + LU3)
CUBE_PTS = ["(-1,-1)", "(-1,0)", "(-1,1)", "(0,-1)", "(0,0)", "(0,1)", "(1,-1)", "(1,0)", "(1,1)"]
for form, tier, fns in [
        ("fast", "quick", ["geometry::kernel::FastKernel::in_sphere", "geometry::predicates::insphere", "geometry::predicates::simplex_orientation"]),
        ("lifted", "thorough", ["geometry::predicates::insphere_lifted", "geometry::predicates::simplex_orientation"]),
        ("robust1", "thorough", ["geometry::robust_predicates::adaptive_tolerance_insphere (stage 1 of RobustKernel::in_sphere)",
                                 "geometry::robust_predicates::robust_orientation", "geometry::robust_predicates::interpret_insphere_determinant"])]:
    for c in range(9):
        # quick tier: the origin-fixed cube of every formulation plus one corner cube of the fast kernel
        # all nine cubes of every formulation are thorough (480-890 s each): the fresh-sandbox run of the quick
        # tier is stopped after 900 s, so the quick tier uses the edge-fixed G=1 instances below instead
        ctier = "thorough"
        h("C12", "c12", f"c12_insphere2d_{form}_g1_c{c}", ctier, 2400,
          f"D=2 in-sphere ({form}): first simplex vertex fixed at {CUBE_PTS[c]}, all 3^6 = 729 choices of the other two vertices and "
          "the query in {-1,0,1}^2: result = sign of the exact in-circle determinant relative to the exact orientation; exactly "
          "degenerate simplex => Err or BOUNDARY (cube c of 9; the 9 cubes together cover the whole G=1 grid)", fns + LU4 + LU3)
for nm, form, edge in [("fast_g3_edge_a", "fast", "(0,0)-(1,0)"), ("fast_g3_edge_b", "fast", "(-3,2)-(3,-1)"),
                       ("lifted_g3_edge_a", "lifted", "(0,0)-(1,0)"), ("robust1_g3_edge_a", "robust stage 1", "(0,0)-(1,0)"),
                       ("robust3_g3_edge_a", "robust stage 3 (conditioned)", "(0,0)-(1,0)")]:
    h("C12", "c12", f"c12_insphere2d_{nm}", "thorough", 3000,
      f"D=2 in-sphere ({form}): simplex edge fixed at {edge}, third vertex and query range over all 7^4 = 2401 integer points of "
      "[-3,3]^2 x [-3,3]^2: exact sign; degenerate => Err or BOUNDARY", LU4 + LU3)
for form, tier in [("fast", "thorough"), ("lifted", "thorough"), ("robust1", "thorough"), ("robust3", "thorough")]:
    h("C12", "c12", f"c12_insphere2d_{form}_dyadic_edge", tier, 3000,
      f"D=2 in-sphere ({form}) on small-scale dyadic input 2^-k*Z^2, k symbolic in 0..=10: simplex edge (0,0)-(1,0), third "
      "vertex and query over [-2,2]^2 (all scaled): exact sign (|det| >= 9e-13 is > 100x the documented tolerance)", LU4 + LU3)
for form, fns in [("fast", ["geometry::kernel::FastKernel::in_sphere (T = f32)", "geometry::predicates::insphere (T = f32)"]),
                  ("lifted", ["geometry::predicates::insphere_lifted (T = f32)"]),
                  ("robust1", ["geometry::robust_predicates::adaptive_tolerance_insphere (T = f32)"])]:
    h("C12", "c12", f"c12_insphere2d_{form}_f32_large", "thorough", 9000,
      f"D=2 in-sphere ({form}), T = f32, LARGE exactly representable coordinates: triangle (9846,27),(11,9865),(-9858,1) and "
      "query (1,-9839) with the third vertex and the query each displaced by every offset of [-3,3]^2 (2401 configurations): "
      "the strict exact sign wherever |det| >= 1e6 (six orders above the f64 rounding error) -- regression guard for F5",
      fns + LU4 + LU3)
for kern in ["fast", "robust"]:
    h("C12", "c12", f"c12_orient3d_{kern}_aniso_origin", "thorough", 6000,
      f"D=3 orientation ({kern} kernel) on ANISOTROPIC dyadic lattices: first vertex at the origin, three points of {{-1,0,1}}^3 "
      "scaled by (2^a, 2^a, 2^b), a in 0..=12, b in -44..=0 symbolic: exact sign where the determinant n*2^(2a+b) clears the "
      "documented tolerance by 100x (a+b >= -30 and 2a+b >= -40), DEGENERATE where n = 0, never the opposite sign", LU4)
PROP_ASSUMPTIONS["C12"] = [
    "coordinates are small integers (or integers times 2^-k) cast exactly to f64; D>=4, D=3 in-sphere and the distance-based "
    "cross-check / perturbation fallbacks of robust_insphere are outside the claim",
]

# ---------------------------------------------------------------------------
# C16
# ---------------------------------------------------------------------------
LAT = ("exact lattice: period L = (7-bit significand) * 2^e, |e| <= 30; coordinate v = +-(12-bit significand) * 2^f, "
       "-1000 <= f <= 38, or +-0; |v| <= 256 L")
WRAP = ("0 <= w < L; v in [0,L) => w = v; wrap(w) = w; w congruent to v modulo L within 8 ulp(L) on the circle")
BOX = "0 <= w < L; v in [0,L) => w = v"
h("C16", "c16", "c16_wrap_coord_box_lattice_1d", "quick", 1500,
  f"ToroidalSpace::wrap_coord<f64>, D=1, {LAT}: {BOX}", ["topology::spaces::toroidal::ToroidalSpace::wrap_coord"])
h("C16", "c16", "c16_canonicalize_point_box_lattice_2d", "quick", 1500,
  f"ToroidalSpace::canonicalize_point, D=2 (axis 0 symbolic, axis 1 fixed), {LAT}: {BOX}",
  ["topology::spaces::toroidal::<ToroidalSpace as TopologicalSpace>::canonicalize_point"])
h("C16", "c16", "c16_model_canonicalize_box_lattice_1d", "quick", 1500,
  f"ToroidalModel::canonicalize_point_in_place<f64>, D=1, {LAT}: Ok and {BOX}",
  ["topology::traits::global_topology_model::ToroidalModel::canonicalize_point_in_place",
   "topology::traits::global_topology_model::ToroidalModel::validate_configuration"])
h("C16", "c16", "c16_wrap_coord_lattice_1d", "quick", 2400,
  f"ToroidalSpace::wrap_coord<f64>, D=1, {LAT}: {WRAP}", ["topology::spaces::toroidal::ToroidalSpace::wrap_coord"])
h("C16", "c16", "c16_canonicalize_point_lattice_2d", "thorough", 3600,
  f"ToroidalSpace::canonicalize_point, D=2 (axis 0 symbolic, axis 1 fixed), {LAT}: {WRAP}",
  ["topology::spaces::toroidal::<ToroidalSpace as TopologicalSpace>::canonicalize_point"])
h("C16", "c16", "c16_model_canonicalize_lattice_1d", "thorough", 3600,
  f"ToroidalModel::canonicalize_point_in_place<f64>, D=1, {LAT}: Ok and {WRAP}",
  ["topology::traits::global_topology_model::ToroidalModel::canonicalize_point_in_place",
   "topology::traits::global_topology_model::ToroidalModel::validate_configuration"])
FAR = ("FAR lattice: period L = (7-bit significand) * 2^e, |e| <= 30; coordinate v = +-(12-bit significand) * 2^f, "
       "-1000 <= f <= 300 (up to 2^330 periods outside the box), or +-0; f64::rem_euclid replaced by the exact integer "
       "lattice model (square-and-multiply), valid for any exponent gap")
FARLAW = "0 <= w < L; v in [0,L) => w = v; w congruent to the exact residue of v modulo L within 8 ulp(L) on the circle"
h("C16", "c16", "c16_wrap_coord_far_narrow_1d", "quick", 1500,
  "ToroidalSpace::wrap_coord<f64>, D=1, NARROW far lattice: L = (7-bit significand)*2^e, |e| <= 2; v = +-(6-bit significand)*2^f, "
  f"50 <= f <= 90 (|v/L| between 2^47 and 2^95, straddling the 2^53 limit of double-precision quotients); exact integer "
  f"lattice model of rem_euclid: {FARLAW}", ["topology::spaces::toroidal::ToroidalSpace::wrap_coord"])
h("C16", "c16", "c16_wrap_coord_far_lattice_1d", "thorough", 6000,
  f"ToroidalSpace::wrap_coord<f64>, D=1, {FAR}: {FARLAW}", ["topology::spaces::toroidal::ToroidalSpace::wrap_coord"])
h("C16", "c16", "c16_model_canonicalize_far_lattice_1d", "thorough", 6000,
  f"ToroidalModel::canonicalize_point_in_place<f64>, D=1, {FAR}: {FARLAW}",
  ["topology::traits::global_topology_model::ToroidalModel::canonicalize_point_in_place"])
h("C16", "c16", "c16_canonicalize_point_far_lattice_2d", "thorough", 6000,
  f"ToroidalSpace::canonicalize_point, D=2 (axis 0 symbolic), {FAR}: {FARLAW}",
  ["topology::spaces::toroidal::<ToroidalSpace as TopologicalSpace>::canonicalize_point"])
h("C16", "c16", "c16_builder_canonicalize_vertices_1d", "thorough", 6000,
  f"DelaunayTriangulationBuilder::canonicalize_vertices with a toroidal model, one vertex, D=1, {LAT}: "
  f"UUID and user data preserved, {BOX}",
  ["core::builder::DelaunayTriangulationBuilder::canonicalize_vertices",
   "topology::traits::global_topology_model::ToroidalModel::canonicalize_point_in_place"])
h("C16", "c16", "c16_builder_canonicalize_vertices_2d", "thorough", 9000,
  f"DelaunayTriangulationBuilder::canonicalize_vertices with a toroidal model, one vertex, D=2 (axis 0 symbolic), {LAT}: "
  f"UUID and user data preserved, {BOX}",
  ["core::builder::DelaunayTriangulationBuilder::canonicalize_vertices",
   "topology::traits::global_topology_model::ToroidalModel::canonicalize_point_in_place"])
h("C16", "c16", "c16_model_canonicalize_lattice_1d_f32", "quick", 1500,
  "ToroidalModel::canonicalize_point_in_place<f32>, D=1, period on the f64 lattice, f32 coordinate with 12-bit significand in "
  "2^-100..2^38 or +-0: wrapped value (as f64) in [0, L), idempotent",
  ["topology::traits::global_topology_model::ToroidalModel::canonicalize_point_in_place (T = f32)"])
h(["C16", "C19"], "c16", "c16_wrap_coord_rejects_bad_input", "quick", 900,
  "ToroidalSpace::wrap_coord over UNRESTRICTED doubles (v, L) and any usize axis: non-finite v, period not finite-positive or "
  "axis out of range => None, never a panic", ["topology::spaces::toroidal::ToroidalSpace::wrap_coord"], kani_args=NOFLOATCHK)
h(["C16", "C19"], "c16", "c16_model_rejects_bad_input", "quick", 1500,
  "ToroidalModel over UNRESTRICTED doubles, D=2: validate_configuration Ok iff every period finite and > 0; "
  "canonicalize_point_in_place is Err for a bad period or a non-finite coordinate, never a panic",
  ["topology::traits::global_topology_model::ToroidalModel::canonicalize_point_in_place",
   "topology::traits::global_topology_model::ToroidalModel::validate_configuration"], kani_args=NOFLOATCHK)
h("C16", "c16", "c16_wrap_coord_lattice_1d_f32", "quick", 1500,
  "ToroidalSpace::wrap_coord<f32>, D=1, period on the f64 lattice, f32 coordinate with 12-bit significand in 2^-100..2^38 or +-0: "
  "wrapped value (as f64) in [0, L), idempotent", ["topology::spaces::toroidal::ToroidalSpace::wrap_coord (T = f32)"])
PROP_ASSUMPTIONS["C16"] = [
    "f64::rem_euclid is replaced by exact reference models: harness/src/rem_model.rs (fma-based, quotient < 2^52) and "
    "harness/src/rem_lattice.rs (integer square-and-multiply, any exponent gap, short significands); both are "
    "differential-tested natively against std on 10^7 / 2*10^7 pairs by setup_cmd; Kani's own float-remainder model is unfaithful",
    "coordinates/periods with longer significands than the lattice, the certified-triangulation clause and the periodic "
    "image-point mode are outside the claim",
]

# ---------------------------------------------------------------------------
# C18
# ---------------------------------------------------------------------------
VOL = ["geometry::util::measures::simplex_volume"]
VOLLAW = "Ok(v) => exact |det| != 0 and |v - |det|/D!| <= 1e-9 |det|/D!; exact det = 0 => Err"
h("C18", "c18", "c18_volume_1d_i16", "quick", 300, f"simplex_volume D=1, endpoints any i16 integers: {VOLLAW}", VOL)
h("C18", "c18", "c18_volume_2d_g2", "quick", 600, f"simplex_volume D=2, all 5^6 triples of points in [-2,2]^2: {VOLLAW}", VOL)
h("C18", "c18", "c18_volume_2d_g3", "thorough", 3000, f"simplex_volume D=2, all 7^6 triples of points in [-3,3]^2: {VOLLAW}", VOL)
h("C18", "c18", "c18_volume_2d_g4", "thorough", 6000, f"simplex_volume D=2, all 9^6 triples of points in [-4,4]^2: {VOLLAW}", VOL)
h("C18", "c18", "c18_volume_2d_dyadic_g2", "thorough", 3000,
  f"simplex_volume D=2 on dyadic lattices 2^-k*[-2,2]^2, k symbolic in 0..=12 (uniform-scaling law 4^-k): {VOLLAW}", VOL)
GRAM = VOL + ["geometry::util::measures::simplex_volume_gram_matrix", "geometry::util::measures::gram_determinant_ldlt (la-stack LDLT)",
              "geometry::util::measures::clamp_gram_determinant"]
h("C18", "c18", "c18_volume_4d_degenerate_g2_fixed3", "thorough", 4000,
  "simplex_volume D=4 (Gram/LDLT path): vertices 0..2 fixed on the unit frame, vertices 3 and 4 all integer points of [-2,2]^4, "
  "restricted to EXACTLY degenerate simplices (exact 5x5 determinant = 0): result must be Err (verdict only, no value claim)", GRAM)
h("C18", "c18", "c18_volume_3d_g1", "quick", 1500, f"simplex_volume D=3, all 3^12 quadruples of points in {{-1,0,1}}^3: {VOLLAW}", VOL)
h(["C18", "C19"], "c18", "c18_volume_2d_wrong_arity", "quick", 300,
  "simplex_volume D=2 with any slice length 0..=5: Ok iff exactly 3 points, never a panic", VOL)
h("C18", "c18", "c18_volume_4d_degenerate_g4_skew4", "thorough", 4000,
  "simplex_volume D=4 (Gram/LDLT path) on a SKEW frame: vertices 0..3 fixed at (2,0,-1,1), (-2,1,2,0), (3,3,1,3), (3,-3,3,1), "
  "vertex 4 every integer point of [-4,4]^4 on their hyperplane (exactly degenerate; the elimination has non-dyadic "
  "multipliers, so a singular pivot is rounding residue rather than an exact zero): result must be Err", GRAM)
CC = ["geometry::util::circumsphere::circumcenter (la-stack LU solve, zero-tolerance fallback)"]
h("C18", "c18", "c18_circumcenter_degenerate_2d_origin_g3", "quick", 1200,
  "circumcenter D=2, first point at the origin, all EXACTLY collinear pairs of further integer points in [0,3]^2: must be Err "
  "-- KNOWN FINDING F4: Ok(garbage) where the LU elimination leaves a rounding residue as pivot", CC)
h("C18", "c18", "c18_circumcenter_degenerate_2d_g2", "thorough", 3000,
  "circumcenter D=2, all EXACTLY collinear triples of integer points in [-2,2]^2: must be Err -- KNOWN FINDING F4: Ok(garbage) "
  "where the LU elimination leaves a rounding residue as pivot", CC)
h("C18", "c18", "c18_circumcenter_value_2d_g2", "thorough", 6000,
  "circumcenter D=2, all non-collinear triples of integer points in [-2,2]^2: Ok(C) with C = exact rational circumcentre "
  "(checked as C*d = integer numerator, d = 2*det, relative 1e-9)", CC)
for k in (30, 44):
    h("C18", "c18", f"c18_circumcenter_translation_2d_k{k}", "thorough", 9000,
      f"circumcenter D=2 translation invariance: non-degenerate triangle in [-2,2]^2 translated by (m0,m1)*2^{k}, m in [-3,3]: "
      "C(p+t) = C(p)+t within 2^-48|t| + 2^-30", CC, mem_gb=24)
PROP_ASSUMPTIONS["C18"] = [
    "volume value claims only for D <= 3 (closed-form branches); for D = 4 only the degenerate => Err verdict; circumcentre D = 2; facet measure, circumradius, inradius and the quality ratios "
    "reach sqrt/hypot (Kani's sqrt model is unfaithful, hypot is FFI) and D >= 4 uses Gram/LDLT: outside the claim",
    "volumes below the library's documented absolute degeneracy threshold 1e-12 are not demanded",
]

# ---------------------------------------------------------------------------
# C19
# ---------------------------------------------------------------------------
h("C19", "c19", "c19_orient2d_unrestricted", "quick", 900,
  "FastKernel::orientation D=2 over UNRESTRICTED doubles (all bit patterns) and slice lengths 0..=4: no panic/overflow/OOB, "
  "loops bounded by D+1; wrong arity => Err; result in {-1,0,1}",
  ["geometry::kernel::FastKernel::orientation", "geometry::predicates::simplex_orientation"] + LU3, kani_args=NOFLOATCHK)
h("C19", "c19", "c19_orient2d_robust_unrestricted", "quick", 900,
  "RobustKernel::orientation D=2 over UNRESTRICTED doubles: no panic/overflow/OOB",
  ["geometry::kernel::RobustKernel::orientation", "geometry::robust_predicates::robust_orientation"] + LU3, kani_args=NOFLOATCHK)
h("C19", "c19", "c19_orient3d_unrestricted", "thorough", 6000,
  "simplex_orientation D=3 over UNRESTRICTED doubles: no panic/overflow/OOB", ["geometry::predicates::simplex_orientation"] + LU4,
  kani_args=NOFLOATCHK)
h("C19", "c19", "c19_insphere2d_unrestricted", "thorough", 10000,
  "insphere and insphere_lifted D=2 over UNRESTRICTED doubles: no panic/overflow/OOB",
  ["geometry::predicates::insphere", "geometry::predicates::insphere_lifted"] + LU4, kani_args=NOFLOATCHK)
h("C19", "c19", "c19_volume_unrestricted", "quick", 900,
  "simplex_volume D=2 and D=3 over UNRESTRICTED doubles: no panic; a returned area is never below the degeneracy threshold",
  VOL, kani_args=NOFLOATCHK)
h(["C19", "C05"], "c19", "c19_nonfinite_refused_3d", "quick", 600,
  "Point::validate, Vertex::is_valid, safe_coords_to_f64, safe_scalar_to_f64, safe_scalar_from_f64 over UNRESTRICTED doubles, D=3: "
  "Ok exactly for finite values (non-finite coordinates are refused before they can enter a triangulation)",
  ["geometry::point::Point::validate", "core::vertex::Vertex::is_valid", "geometry::util::conversions::safe_coords_to_f64",
   "geometry::util::conversions::safe_scalar_to_f64", "geometry::util::conversions::safe_scalar_from_f64"], kani_args=NOFLOATCHK)
h("C19", "c19", "c19_hilbert_prequantized_unrestricted_3d", "quick", 900,
  "hilbert_indices_prequantized D=3, two cells of ANY u32 content (above the grid too), ANY u32 bits: Ok iff bits in 1..=31, "
  "no panic/overflow, loops bounded by bits", HIL)
h("C19", "c19", "c19_morton_unrestricted", "quick", 600,
  "morton_code D=2 (32 bits) and D=3 (21 bits) with ANY u64 coordinates: no panic/overflow, loop bounded by bits",
  ["core::delaunay_triangulation::morton_code"])
h("C19", "c19", "c19_grid_keys_unrestricted", "quick", 900,
  "quantize_coords and HashGridIndex::key_for_coords D=2 over UNRESTRICTED doubles (coordinates, inverse cell, cell size): "
  "no panic; non-finite coordinates are never keyed",
  ["core::delaunay_triangulation::quantize_coords", "core::collections::spatial_hash_grid::HashGridIndex::key_for_coords"],
  kani_args=NOFLOATCHK)
h("C19", "c19", "c19_simplex_selection_too_few_inputs", "quick", 900,
  "select_balanced_simplex_indices / reorder_vertices_for_simplex, D=2, input lengths 0, 1, 2 (fewer than D+1 vertices) with "
  "UNRESTRICTED coordinates: None, no panic",
  ["core::delaunay_triangulation::select_balanced_simplex_indices", "core::delaunay_triangulation::reorder_vertices_for_simplex"],
  kani_args=NOFLOATCHK)
h("C19", "c19", "c19_simplex_selection_short_inputs", "thorough", 3000,
  "select_balanced_simplex_indices / reorder_vertices_for_simplex, D=2, every input length 0..=3 with UNRESTRICTED "
  "coordinates: no panic; fewer than D+1 vertices => None",
  ["core::delaunay_triangulation::select_balanced_simplex_indices", "core::delaunay_triangulation::reorder_vertices_for_simplex"],
  kani_args=NOFLOATCHK)
PROP_ASSUMPTIONS["C19"] = [
    "kernel level only: the walk step limit, flip budgets, cycle detection and the rebuild recursion guard live in Tds-walking "
    "loops that are outside reach (DESIGN.md section 0)",
    "termination = CBMC unwinding assertions with bounds derived from argument sizes",
]

# ---------------------------------------------------------------------------
# C05
# ---------------------------------------------------------------------------
h(["C05", "C19"], "c05", "c05_vertex_is_valid_exact_3d", "quick", 600,
  "Vertex::is_valid D=3 over UNRESTRICTED coordinates and ALL 2^128 UUID bit patterns (whole domain): Ok <=> finite "
  "coordinates, non-nil UUID, version 4; validate_uuid likewise",
  ["core::vertex::Vertex::is_valid", "core::util::uuid::validate_uuid", "geometry::point::Point::validate"], kani_args=NOFLOATCHK)
for n, tier, to in [(3, "quick", 600), (4, "quick", 900), (5, "thorough", 3000)]:
    h("C05", "c05", f"c05_permutation_parity_n{n}", tier, to,
      f"Tds::permutation_is_odd on id lists of length {n} over 8 ids, source ids distinct: = parity from the cycle structure; "
      "None iff the lists are not permutations of each other (core of the coherent-orientation check)",
      ["core::triangulation_data_structure::Tds::permutation_is_odd"])
h("C05", "c05", "c05_permutation_parity_length_mismatch", "quick", 600,
  "Tds::permutation_is_odd with lists of different lengths (3 vs 4, 4 vs 3, 0 vs 1, any ids): None; two empty lists: even", ["core::triangulation_data_structure::Tds::permutation_is_odd"])
FK = ["core::facet::facet_key_from_vertices", "core::util::hashing::stable_hash_u64_slice"]
h("C05", "c05", "c05_facet_key_injective_no_reuse", "quick", 1800,
  "facet_key_from_vertices on 2-key facets, slot-map keys version 1 (no slot reuse), index < 2^20: distinct sorted key tuples "
  "have distinct 64-bit facet keys", FK)
h("C05", "c05", "c05_facet_key_injective_with_reuse", "quick", 900,
  "facet_key_from_vertices on 2-key facets, odd versions <= 1023 (slot reuse), index < 4096, one version per live slot: "
  "injectivity -- KNOWN FINDING F2, a collision exists", FK)
h("C05", "c05", "c05_facet_key_injective_no_reuse_3keys", "thorough", 6000,
  "facet_key_from_vertices on 3-key facets (D=3), version 1, index < 2^10: distinct sorted tuples have distinct keys", FK)
h("C05", "c05", "c05_facet_key_order_independent_2keys", "quick", 1800,
  "facet_key_from_vertices: 2 keys, index < 64, version in {1,3}: swapping the keys gives the same key; empty slice => 0", FK)
h("C05", "c05", "c05_facet_key_order_independent_3keys", "thorough", 3600,
  "facet_key_from_vertices: 3 keys, index < 8, version 1: every permutation gives the same key", FK)
h(["C15"], "c05", "c05_edge_key_canonical", "quick", 300,
  "EdgeKey::new over ALL pairs of 64-bit key patterns: symmetric, endpoints ordered, endpoints are the inputs", ["core::edge::EdgeKey::new"])
PROP_ASSUMPTIONS["C05"] = [
    "container-free validator kernels only; every validator that walks a Tds or builds a hash map (neighbour mutuality, "
    "duplicate cells, facet degree, links, connectedness, Euler) and all fault injection on real complexes are outside reach",
]

# ---------------------------------------------------------------------------
# C09
# ---------------------------------------------------------------------------
GK = ["core::collections::spatial_hash_grid::HashGridIndex::key_for_coords", "core::collections::spatial_hash_grid::HashGridIndex::new"]
NB = ("if the linear scan would call q a duplicate of p (squared distance < tolerance^2) then both are keyed and their grid "
      "cells differ by at most 1, i.e. q is inside the 3^D block searched around p")
h("C09", "c09", "c09_grid_neighbourhood_default_tol_lattice", "quick", 900,
  f"HashGridIndex::key_for_coords, cell size = default duplicate tolerance 1e-10, p = i*2^-36 (|i|<=4096), q = p + j*2^-36 (|j|<=8): {NB}",
  GK + ["core::delaunay_triangulation::default_duplicate_tolerance"])
h("C09", "c09", "c09_grid_neighbourhood_pow2_cells", "quick", 900,
  f"key_for_coords, cell size 2^-m (m in 20..=40), p = i*2^-(m+3), q = p + j*2^-(m+3), |i|<=4096, |j|<=9: {NB}", GK)
h("C09", "c09", "c09_grid_neighbourhood_doubles_window", "thorough", 6000,
  f"key_for_coords, cell size 1e-10, ALL doubles p, q in [0, 4e-10]: {NB}", GK)
h("C09", "c09", "c09_quantized_neighbourhood_lattice", "quick", 1200,
  f"quantize_coords (batch epsilon dedup), eps = 1e-10 or 2^-m (m in 20..=40), same lattices: {NB}",
  ["core::delaunay_triangulation::quantize_coords"])
h(["C09", "C19"], "c09", "c09_within_epsilon_nan_identity_1d", "quick", 1800,
  "coords_within_epsilon D=1 over UNRESTRICTED doubles: NaN never within; identical finite coordinates are within any "
  "epsilon with eps^2 > 0 (strictness at exactly epsilon is decided by c09_within_epsilon_exact_grid_2d)",
  ["core::util::deduplication::coords_within_epsilon"], kani_args=NOFLOATCHK)
h("C09", "c09", "c09_within_epsilon_exact_grid_2d", "quick", 1800,
  "coords_within_epsilon D=2, all pairs of integer points in [-4,4]^2, eps = n/4 for n in 1..=24: symmetric and equal to the "
  "exact integer comparison 16 dist^2 < n^2", ["core::util::deduplication::coords_within_epsilon"])
h(["C09", "C19"], "c09", "c09_equality_coherent_2d", "quick", 900,
  "coords_equal_exact <=> Vertex::partial_cmp == Equal <=> Vertex ==, vertex order total and antisymmetric, D=2, UNRESTRICTED "
  "doubles (signed zeros, NaN payloads, infinities)",
  ["core::util::deduplication::coords_equal_exact", "core::vertex::Vertex::partial_cmp", "core::vertex::Vertex::eq"],
  kani_args=NOFLOATCHK)
PROP_ASSUMPTIONS["C09"] = [
    "kernel level only: consistency of the persistent spatial_index with the vertex set across histories, UUID uniqueness and "
    "the scan/grid branch of duplicate_coordinates_error itself are container state, outside reach",
]

# ---------------------------------------------------------------------------
# C14
# ---------------------------------------------------------------------------
GEN = {"s01": "positions 0 and 1 swapped", "s12": "positions 1 and 2 swapped"}
for nm, strat, tier, to in [("lex", "Lexicographic", "quick", 900), ("morton", "Morton", "thorough", 6000), ("hilbert", "Hilbert", "thorough", 9000)]:
    for g, gtxt in GEN.items():
        h("C14", "c14", f"c14_order_independent_{nm}_n3_{g}", tier, to,
          f"{strat} ordering, n=3 vertices, D=2, ALL integer coordinates in [-2,2], input list with {gtxt} (the two "
          "transpositions generate S3, so invariance under both = invariance under every permutation): identical ordered "
          "coordinate sequence; with pairwise distinct coordinates identical vertex (UUID) sequence",
          ORD + [f"core::delaunay_triangulation::order_vertices_{nm if nm != 'lex' else 'lexicographic'}"],
          mem_gb=(30 if nm == "hilbert" else 10))
        h("C14", "c14", f"c14_order_independent_{nm}_cluster_n3_{g}", tier, to,
          f"{strat} ordering on a CLUSTER: frame vertex (-2,2) plus two vertices with coordinates in {{0,1,2,3}}*2^-40 (same "
          f"Hilbert/Morton cell), D=2, input list with {gtxt}: identical ordered sequence (coordinates; vertices when the two "
          "cluster points differ)", ORD, mem_gb=(30 if nm == "hilbert" else 10))
h("C14", "c14", "c14_order_deterministic_n3", "thorough", 2400,
  "Input/Lexicographic ordering applied twice to the same n=3 input (D=2, coordinates in [-2,2]): identical sequences", ORD)
PROP_ASSUMPTIONS["C14"] = [
    "kernel level only: equality of the BUILT triangulations, uniqueness of the Delaunay triangulation, hash-map iteration "
    "order, the shuffle seed's permutation invariance (two 64-bit multiplier chains: solver timeout) and cross-process runs "
    "are outside reach",
]
