"""Mutant self-test (DESIGN.md §5): one-line mutations of a scratch copy of /repo; the owning
quick check must report a VIOLATION confirmed by native replay. Substitute for a second solver
and guard against over-constrained (vacuous) harnesses.

The scratch copy lives under /tmp/verif-selftest and is removed afterwards.
"""
from __future__ import annotations

import os
import shutil
import subprocess
import time

import verifdriver as vd

SCRATCH = f"/tmp/verif-selftest-{os.getpid()}"

# (name, property, harness filter or None, file, old, new)
MUTANTS = [
    ("tolerance_too_large", "C12", "orient2d_fast_g1", "src/geometry/matrix.rs",
     "let rel_factor = 1e-12f64;", "let rel_factor = 1.0f64;"),
    ("insphere_forgets_orientation", "C12", "insphere2d_fast_g1_c4", "src/geometry/predicates.rs",
     "                let det_norm = det * orient_sign;\n                if det_norm > tolerance_f64 {\n                    Ok(InSphere::INSIDE)",
     "                let det_norm = det;\n                if det_norm > tolerance_f64 {\n                    Ok(InSphere::INSIDE)"),
    ("hilbert_gray_step_dropped", "C17", "hilbert_curve_2d_b2", "src/core/util/hilbert.rs",
     "        *coord ^= prev;\n        prev = *coord;", "        prev = *coord;"),
    ("morton_wrong_mask", "C17", "morton_injective_2d", "src/core/delaunay_triangulation.rs",
     "let b = (q >> bit) & 1;", "let b = (q >> bit) & (if bit == 7 { 0 } else { 1 });"),
    ("exact_dedup_keeps_duplicates", "C17", "dedup_exact_sorted", "src/core/delaunay_triangulation.rs",
     "            record_duplicate_detection_metrics(false, 0, true);\n            continue;\n        }",
     "            record_duplicate_detection_metrics(false, 0, true);\n        }"),
    ("wrap_clamps_removed", "C16", "wrap_coord_box_lattice_1d", "src/topology/spaces/toroidal.rs",
     "        let wrapped = if wrapped >= period { 0.0 } else { wrapped };\n        let out = <T as NumCast>::from(wrapped)?;\n        // Narrowing to `T` (e.g. `f32`) can round up onto `period` again.\n        if out.to_f64().is_some_and(|o| o >= period) {\n            return Some(T::zero());\n        }\n        Some(out)",
     "        <T as NumCast>::from(wrapped)"),
    ("wrap_f32_clamp_removed", "C16", "wrap_coord_lattice_1d_f32", "src/topology/spaces/toroidal.rs",
     "        if out.to_f64().is_some_and(|o| o >= period) {\n            return Some(T::zero());\n        }\n",
     ""),
    ("model_clamps_removed", "C16", "model_canonicalize_box", "src/topology/traits/global_topology_model.rs",
     "            if coord_ref.to_f64().is_some_and(|c| c >= period) {\n                *coord_ref = T::zero();\n            }\n",
     "", "quick", [("src/topology/traits/global_topology_model.rs", "            let wrapped = if wrapped >= period { 0.0 } else { wrapped };\n", "")]),
    ("volume3d_wrong_divisor", "C18", "volume_3d_g1", "src/geometry/util/measures.rs",
     "let volume = Float::abs(triple_product) / six;", "let volume = Float::abs(triple_product) / (six + six);"),
    ("volume2d_sign_slip", "C18", "volume_2d_g2", "src/geometry/util/measures.rs",
     "let cross_z = v1[0] * v2[1] - v1[1] * v2[0];", "let cross_z = v1[0] * v2[1] + v1[1] * v2[0];"),
    ("hilbert_bits_32_accepted", "C19", "hilbert_quantize_range", "src/core/util/hilbert.rs",
     "pub fn hilbert_quantize<T: CoordinateScalar, const D: usize>(\n    coords: &[T; D],\n    bounds: (T, T),\n    bits: u32,\n) -> Result<[u32; D], HilbertError> {\n    if bits == 0 || bits > 31 {",
     "pub fn hilbert_quantize<T: CoordinateScalar, const D: usize>(\n    coords: &[T; D],\n    bounds: (T, T),\n    bits: u32,\n) -> Result<[u32; D], HilbertError> {\n    if bits == 0 || bits > 32 {"),
    ("parity_counts_non_inversions", "C05", "permutation_parity_n3", "src/core/triangulation_data_structure.rs",
     "                if target_positions[i] > target_positions[j] {\n                    is_odd = !is_odd;",
     "                if target_positions[i] < target_positions[j] {\n                    is_odd = !is_odd;"),
    ("uuid_version_check_loosened", "C05", "vertex_is_valid", "src/core/util/uuid.rs",
     "if version != 4 {", "if version < 4 {"),
    ("facet_key_unsorted", "C05", "order_independent", "src/core/facet.rs",
     "    key_values.sort_unstable();\n\n    // Use the shared stable hash function", "    // Use the shared stable hash function"),
    ("grid_key_rounds", "C09", "grid_neighbourhood_pow2", "src/core/collections/spatial_hash_grid.rs",
     "let cell_coord = (*coord / self.cell_size).floor();", "let cell_coord = (*coord / self.cell_size).round() * (T::one() + T::one());"),
    ("epsilon_not_strict", "C09", "within_epsilon", "src/core/util/deduplication.rs",
     "    dist_sq < epsilon_sq\n}", "    dist_sq <= epsilon_sq\n}"),
    ("morton_tiebreak_by_input_index", "C14", "morton_cluster_n3_s12", "src/core/delaunay_triangulation.rs",
     "        a_code\n            .cmp(b_code)\n            .then_with(|| a_vertex.partial_cmp(b_vertex).unwrap_or(Ordering::Equal))\n            .then_with(|| a_idx.cmp(b_idx))",
     "        a_code\n            .cmp(b_code)\n            .then_with(|| a_idx.cmp(b_idx))", "thorough"),
    ("f32_lift_in_f32_again", "C12", "fast_f32_large", "src/geometry/predicates.rs",
     "            let squared_norm_f64 = squared_norm(&point_coords_f64);\n            matrix_set(&mut matrix, i, D, safe_scalar_to_f64(squared_norm_f64)?);",
     "            let squared_norm_f64 = squared_norm(point_coords);\n            matrix_set(&mut matrix, i, D, safe_scalar_to_f64(squared_norm_f64)?);", "thorough"),
]


def prepare_copy(scratch: str):
    """rsync /repo (without target/.git) and the harness crate into `scratch`; returns Ctx."""
    os.makedirs(scratch, exist_ok=True)
    repo = os.path.join(scratch, "repo")
    harness = os.path.join(scratch, "harness")
    target = os.path.join(scratch, "target")
    subprocess.run(["rsync", "-a", "--delete", "--exclude", "target", "--exclude", ".git", vd.REPO + "/", repo + "/"], check=True)
    shutil.rmtree(harness, ignore_errors=True)
    shutil.copytree(os.path.join(vd.ROOT, "harness"), harness, ignore=shutil.ignore_patterns("target"))
    ct = os.path.join(harness, "Cargo.toml")
    s = open(ct).read().replace('path = "/repo"', f'path = "{repo}"')
    open(ct, "w").write(s)
    return vd.Ctx(repo=repo, harness_dir=harness, target_root=target)


def main(only: str | None, tier: str, jobs: int) -> int:
    results = []
    try:
        for mutant in MUTANTS:
            name, prop, flt, file, old, new = mutant[:6]
            mtier = mutant[6] if len(mutant) > 6 else "quick"
            more = mutant[7] if len(mutant) > 7 else []
            if only and only not in name and only != prop:
                continue
            ctx = prepare_copy(SCRATCH)
            ok = True
            for (f2, o2, n2) in [(file, old, new)] + list(more):
                p = os.path.join(ctx.repo, f2)
                src = open(p).read()
                if src.count(o2) != 1:
                    print(f"selftest {name}: pattern occurs {src.count(o2)} times in {f2} -- mutant not applicable")
                    ok = False
                    break
                open(p, "w").write(src.replace(o2, n2))
            if not ok:
                results.append((name, prop, "not-applicable"))
                continue
            t0 = time.time()
            rc = vd.check_property(prop, mtier, flt, jobs, ctx=ctx, write_evidence=False)
            verdict = "caught" if rc == 1 else f"MISSED(rc={rc})"
            print(f"selftest {name} [{prop}]: {verdict} in {time.time() - t0:.0f}s")
            results.append((name, prop, verdict))
    finally:
        shutil.rmtree(SCRATCH, ignore_errors=True)
    print("selftest summary:")
    for r in results:
        print("  ", *r)
    return 0 if results and all(r[2] == "caught" for r in results) else 1


def seedtest(only: str | None, tier: str, jobs: int) -> int:
    """Run the owning property's check against every seeded change under /verif/seeded/<id>/
    (patch applied to a scratch copy of /repo; /repo itself is never touched). A seed may
    carry `check.json` = {"runs": [{"tier": .., "only": ..}, ...]} naming the runs to try;
    default: the quick tier of the property."""
    import json
    scratch = f"/tmp/verif-seedtest-{os.getpid()}"
    root = os.path.join(vd.ROOT, "seeded")
    rows = []
    try:
        for sid in sorted(os.listdir(root)):
            d = os.path.join(root, sid)
            if not os.path.isdir(d) or (only and not any(o and o in sid for o in only.split(','))):
                continue
            meta = json.load(open(os.path.join(d, "meta.json")))
            prop = meta["property"]
            runs = [{"tier": "quick", "only": None}]
            cj = os.path.join(d, "check.json")
            if os.path.exists(cj):
                runs = json.load(open(cj))["runs"]
            if prop not in __import__("catalog").PROPERTIES:
                rows.append((sid, prop, "-", "not claimed (not_applicable)"))
                continue
            for run in runs:
                if tier == "quick" and run["tier"] != "quick":
                    continue
                ctx = prepare_copy(scratch)
                r = subprocess.run(["git", "apply", "--directory", ctx.repo.lstrip("/"), "--unsafe-paths", os.path.join(d, "patch.diff")],
                                   cwd="/", capture_output=True, text=True)
                if r.returncode != 0:
                    r = subprocess.run(["patch", "-p1", "-d", ctx.repo, "-i", os.path.join(d, "patch.diff")], capture_output=True, text=True)
                if r.returncode != 0:
                    rows.append((sid, prop, str(run), "patch does not apply: " + (r.stderr or r.stdout)[-200:]))
                    continue
                t0 = time.time()
                rc = vd.check_property(prop, run["tier"], run.get("only"), jobs, ctx=ctx, write_evidence=False)
                verdict = {0: "MISSED (exit 0)", 1: "CAUGHT (VIOLATION, replayed natively)", 2: "inconclusive (exit 2)", 3: "not decided (exit 3)"}[rc]
                print(f"seedtest {sid} [{prop}] tier={run['tier']} only={run.get('only')}: {verdict} in {time.time() - t0:.0f}s", flush=True)
                rows.append((sid, prop, f"tier={run['tier']} only={run.get('only')}", verdict))
    finally:
        shutil.rmtree(scratch, ignore_errors=True)
    print("seedtest summary:")
    for r in rows:
        print("  ", " | ".join(r))
    return 0
